#!/usr/bin/env python3
"""copy the outcome recorded in seeded/MATRIX.json into each seeded/<id>/meta.json (detected_by: list of properties whose quick check reported a violation, [] = missed)"""
import json, glob, os
V = os.path.dirname(os.path.dirname(os.path.abspath(__file__)))
M = json.load(open(V + '/seeded/MATRIX.json'))
for d in sorted(glob.glob(V + '/seeded/C*_*')):
    mid = os.path.basename(d); mp = d + '/meta.json'
    if not os.path.exists(mp) or mid not in M: continue
    meta = json.load(open(mp)); r = M[mid]
    meta['detected_by'] = r.get('detected', []); meta['matrix_tier'] = r.get('tier')
    json.dump(meta, open(mp, 'w'), indent=1)
print('updated', len(M))
