#!/bin/sh
# usage: confirm_mutant.sh <worktree> <mutant-dir>   — independently confirm a seeded change: applies, builds, ctest passes, demo fails; reverted: demo passes
WT=$1; M=$2
cd $WT || exit 9
git checkout -q -- . ; git apply --check $M/patch.diff || { echo "RESULT patch does not apply"; exit 1; }
git apply $M/patch.diff
ninja -C _build >/dev/null 2>&1 || { echo "RESULT mutant does not build"; git checkout -q -- .; exit 1; }
ctest --test-dir _build -j8 --timeout 900 > $M/ctest_confirm.log 2>&1; CT=$?
grep -E "tests passed|tests failed" $M/ctest_confirm.log
DEMO=$M/demo.c; [ -f $DEMO ] || DEMO=$(ls $M/demo.* | head -1)
BUILD="clang-16 -fblocks -w -I$WT -I$WT/private -I$WT/src -I$WT/_build $DEMO -L$WT/_build -ldispatch -lBlocksRuntime -Wl,-rpath,$WT/_build -lpthread -o $M/demo_confirm"
[ -f $M/build_demo.sh ] && BUILD="sh $M/build_demo.sh $WT $M/demo_confirm"
$BUILD > $M/demo_build.log 2>&1 || { echo "RESULT demo does not build (see $M/demo_build.log)"; git checkout -q -- .; ninja -C _build >/dev/null 2>&1; exit 1; }
timeout 300 $M/demo_confirm > $M/demo_mutant.log 2>&1; RM=$?
git checkout -q -- . ; ninja -C _build >/dev/null 2>&1
timeout 300 $M/demo_confirm > $M/demo_clean.log 2>&1; RC=$?
echo "RESULT ctest_rc=$CT demo_with_mutant_rc=$RM demo_clean_rc=$RC"
[ $CT -eq 0 ] && [ $RM -ne 0 ] && [ $RC -eq 0 ] && echo CONFIRMED || echo NOT-CONFIRMED
