#!/usr/bin/env python3
"""run the registered checks against every seeded change:  mutation_matrix.py [--tier quick] [ids...]
   applies seeded/<id>/patch.diff to /repo, runs ./check for the property it targets (plus --also ones), reverts. Writes seeded/MATRIX.json."""
import sys, os, json, subprocess, glob, time
V = os.path.dirname(os.path.dirname(os.path.abspath(__file__)))
# never touches /repo: the changes are applied to a scratch worktree (VERIF_REPO, default /tmp/repo_mut, created on demand) and evidence/work go to scratch directories
REPO = os.environ.get('VERIF_REPO', '/tmp/repo_mut'); os.environ['VERIF_REPO'] = REPO; os.environ.setdefault('VERIF_WORK', REPO + '.work'); os.environ.setdefault('VERIF_EVIDENCE_DIR', REPO + '.evidence')
if not os.path.exists(REPO): subprocess.run(['git', '-C', '/repo', 'worktree', 'add', '--detach', '-f', REPO, 'HEAD'], check=True, stdout=subprocess.DEVNULL)
subprocess.run(['git', '-C', REPO, 'checkout', '-q', '--', '.']); subprocess.run(['git', '-C', REPO, 'checkout', '-q', '--detach', subprocess.run(['git', '-C', '/repo', 'rev-parse', 'HEAD'], stdout=subprocess.PIPE, text=True).stdout.strip()], check=True)
os.makedirs(os.environ['VERIF_EVIDENCE_DIR'], exist_ok=True); tier = 'quick'; args = sys.argv[1:]
noalso = '--no-also' in args
if noalso: args.remove('--no-also')
if '--tier' in args: i = args.index('--tier'); tier = args[i + 1]; del args[i:i + 2]
man = json.load(open(V + '/MANIFEST.json')); claimed = {c['property_id'] for c in man['checks']}
ALSO = {'C05': ['C08', 'C07', 'C01'], 'C02': ['C04', 'C01'], 'C04': ['C02'], 'C17': ['C01'], 'C03': ['C01', 'C02']}
out = {}
mp = V + '/seeded/MATRIX.json'
if os.path.exists(mp): out = json.load(open(mp))
for d in sorted(glob.glob(V + '/seeded/C*_*')):
    mid = os.path.basename(d)
    if args and mid not in args and mid.split('_')[0] not in args: continue
    prop = mid.split('_')[0]
    subprocess.run(['git', '-C', REPO, 'checkout', '--', '.'], check=True)
    r = subprocess.run(['git', '-C', REPO, 'apply', d + '/patch.diff'])
    if r.returncode: out[mid] = dict(error='patch does not apply'); continue
    res = {}
    try:
        for p in [prop] + ([] if noalso else ALSO.get(prop, [])):
            if p not in claimed: continue
            t0 = time.time()
            r = subprocess.run(['./check', p, '--tier', tier], cwd=V, stdout=subprocess.PIPE, stderr=subprocess.DEVNULL, text=True)
            viol = [l for l in r.stdout.split('\n') if l.startswith('VIOLATION')]
            detail = [l.strip() for l in r.stdout.split('\n') if l.startswith('  harness=')]
            res[p] = dict(rc=r.returncode, violations=len(viol), first=(detail[0][:300] if detail else None), broken=[l[:200] for l in r.stdout.split('\n') if l.startswith('BROKEN')][:2], wall_s=round(time.time() - t0, 1))
    finally:
        subprocess.run(['git', '-C', REPO, 'checkout', '--', '.'], check=True)
    out[mid] = dict(tier=tier, results=res, detected=[p for p, x in res.items() if x['rc'] == 1])
    print(mid, 'DETECTED by ' + ','.join(out[mid]['detected']) if out[mid]['detected'] else 'MISSED', {p: (x['rc'], x['wall_s']) for p, x in res.items()}, flush=True)
    json.dump(out, open(mp, 'w'), indent=1)
