#!/usr/bin/env python3
"""save a confirmed seeded change:  save_mutant.py <prop> <src-dir> <name> <needs...>"""
import sys, os, shutil, json, glob
prop, src, name = sys.argv[1:4]; needs = ' '.join(sys.argv[4:])
d = os.path.join('/verif/seeded', '%s_%s' % (prop, name)); os.makedirs(d, exist_ok=True)
for f in glob.glob(src + '/*'):
    b = os.path.basename(f)
    if b in ('patch.diff', 'README.md') or b.startswith('demo.') or b.startswith('stress.') or b == 'build_demo.sh': shutil.copy(f, d)
logs = {k: (open(os.path.join(src, k)).read()[-600:] if os.path.exists(os.path.join(src, k)) else None) for k in ('ctest_confirm.log', 'demo_mutant.log', 'demo_clean.log')}
meta = dict(property=prop, id='%s_%s' % (prop, name), needs_to_manifest=needs,
            confirmed=dict(how='tools/confirm_mutant.sh in a scratch worktree: patch applies, library builds, ctest 22/22 pass with the change, demo exits non-zero with the change and 0 without',
                           ctest_tail=logs['ctest_confirm.log'], demo_with_change_tail=logs['demo_mutant.log'], demo_clean_tail=logs['demo_clean.log']),
            detected_by=None)
json.dump(meta, open(os.path.join(d, 'meta.json'), 'w'), indent=1)
print('saved', d)
