#!/usr/bin/env python3
"""ir2c: translate (a slice of) an LLVM-14 textual IR module into C that CBMC's C front end accepts.

usage: ir2c.py module.ll --entry f1,f2 [--stub g1,g2] [--keep-global-init] -o out.c
Every function reachable from the entries (direct calls, address-taken references in code and in
referenced global initialisers) is translated unless listed under --stub, in which case only a
prototype is emitted and the harness supplies the body.
"""
import re, sys, argparse, collections

TOK = re.compile(r'''
   (?P<ws>\s+)
 | (?P<str>c?"(?:[^"\\]|\\.)*")
 | (?P<lid>%(?:"(?:[^"\\]|\\.)*"|[-\w.$]+))
 | (?P<gid>@(?:"(?:[^"\\]|\\.)*"|[-\w.$]+))
 | (?P<meta>![\w.]*)
 | (?P<attr>\#\d+)
 | (?P<hex>0x[KLMHR]?[0-9A-Fa-f]+)
 | (?P<flt>-?\d+\.\d*(?:[eE][-+]?\d+)?)
 | (?P<int>-?\d+)
 | (?P<dots>\.\.\.)
 | (?P<word>[A-Za-z_][\w.]*)
 | (?P<p>[][(){}<>,*=:;|])
''', re.X)

def tokenize(s):
    out = []; i = 0
    while i < len(s):
        m = TOK.match(s, i)
        if not m: raise SyntaxError('tok: %r' % s[i:i+40])
        i = m.end()
        k = m.lastgroup
        if k == 'ws': continue
        out.append((k, m.group(k)))
    return out

# ---------------------------------------------------------------- types
class T:
    __slots__ = ('k', 'a', 'b', 'c')
    def __init__(s, k, a=None, b=None, c=None): s.k, s.a, s.b, s.c = k, a, b, c
    def key(s):
        if s.k == 'int': return 'i%d' % s.a
        if s.k in ('void', 'float', 'double', 'x86_fp80', 'label', 'metadata', 'opaqueptr'): return s.k
        if s.k == 'named': return '%' + s.a
        if s.k == 'ptr': return s.a.key() + '*'
        if s.k == 'arr': return '[%d x %s]' % (s.a, s.b.key())
        if s.k == 'vec': return '<%d x %s>' % (s.a, s.b.key())
        if s.k == 'struct': return ('<{%s}>' if s.b else '{%s}') % ','.join(x.key() for x in s.a)
        if s.k == 'fn': return '%s(%s%s)' % (s.a.key(), ','.join(x.key() for x in s.b), ',...' if s.c else '')
        raise ValueError(s.k)
    def __repr__(s): return s.key()
    def __eq__(s, o): return isinstance(o, T) and s.key() == o.key()
    def __hash__(s): return hash(s.key())

def INT(n): return T('int', n)
def PTR(t): return T('ptr', t)
VOID = T('void')

class P:
    """token stream parser"""
    def __init__(s, toks): s.t = toks; s.i = 0
    def peek(s, o=0): return s.t[s.i + o] if s.i + o < len(s.t) else ('eof', '')
    def next(s): x = s.peek(); s.i += 1; return x
    def accept(s, v):
        if s.peek()[1] == v: s.i += 1; return True
        return False
    def expect(s, v):
        x = s.next()
        if x[1] != v: raise SyntaxError('expected %r got %r at %d: %s' % (v, x, s.i, ' '.join(t[1] for t in s.t[max(0,s.i-8):s.i+8])))
    def eof(s): return s.i >= len(s.t)

    def type(s):
        k, v = s.next()
        if k == 'word':
            if re.fullmatch(r'i\d+', v): t = INT(int(v[1:]))
            elif v in ('void', 'float', 'double', 'x86_fp80', 'label', 'metadata'): t = T(v)
            elif v == 'ptr': t = T('opaqueptr')
            elif v == 'opaque': t = T('opaque')
            else: raise SyntaxError('type word ' + v)
        elif k == 'lid': t = T('named', v[1:].strip('"'))
        elif v == '[':
            n = int(s.next()[1]); s.expect('x'); e = s.type(); s.expect(']'); t = T('arr', n, e)
        elif v == '<':
            if s.peek()[1] == '{':
                s.next(); fs = s.typelist('}'); s.expect('>'); t = T('struct', fs, True)
            else:
                n = int(s.next()[1]); s.expect('x'); e = s.type(); s.expect('>'); t = T('vec', n, e)
        elif v == '{':
            fs = s.typelist('}'); t = T('struct', fs, False)
        else: raise SyntaxError('type at %r' % ((k, v),))
        while True:
            if s.peek()[1] == '*': s.next(); t = PTR(t)
            elif s.peek()[1] == '(':
                s.next(); ps = []; va = False
                while not s.accept(')'):
                    if s.peek()[0] == 'dots': s.next(); va = True
                    else:
                        ps.append(s.type())
                        s.skip_param_attrs()
                    s.accept(',')
                t = T('fn', t, ps, va)
            elif s.peek()[1] == 'addrspace':
                s.next(); s.expect('('); s.next(); s.expect(')')
            else: break
        return t
    def typelist(s, close):
        fs = []
        while not s.accept(close):
            fs.append(s.type()); s.accept(',')
        return fs
    PATTR = {'noundef','nonnull','zeroext','signext','noalias','nocapture','readonly','readnone','writeonly','returned',
             'inreg','nest','immarg','swiftself','swifterror','nofree','noundef'}
    def skip_param_attrs(s):
        s.last_align = 1
        while True:
            k, v = s.peek()
            if v in s.PATTR: s.next()
            elif v in ('align', 'dereferenceable', 'dereferenceable_or_null'):
                s.next()
                if s.accept('('): x = s.next()[1]; s.expect(')')
                else: x = s.next()[1]
                if v == 'align' and x.isdigit(): s.last_align = int(x)
            elif v in ('byval', 'sret', 'byref', 'inalloca', 'preallocated', 'elementtype'):
                s.next()
                if s.accept('('): s.type(); s.expect(')')
            else: break

    # ---- values: returns python structure
    def value(s, ty):
        k, v = s.next()
        if k == 'lid': return ('loc', v[1:].strip('"'))
        if k == 'gid': return ('glob', v[1:].strip('"'))
        if k == 'int': return ('int', int(v))
        if k == 'hex': return ('flt', v)
        if k == 'flt': return ('flt', v)
        if k == 'str': return ('cstr', v[2:-1])
        if k == 'word':
            if v in ('null', 'undef', 'poison', 'zeroinitializer', 'true', 'false'): return (v,)
            if v in ('bitcast', 'inttoptr', 'ptrtoint', 'trunc', 'zext', 'sext', 'addrspacecast'):
                s.expect('('); t1 = s.type(); x = s.value(t1); s.expect('to'); t2 = s.type(); s.expect(')')
                return ('cast', v, t1, x, t2)
            if v == 'getelementptr':
                s.accept('inbounds'); s.expect('(')
                bt = s.type(); s.expect(','); pt = s.type(); base = s.value(pt); idx = []
                while s.accept(','):
                    s.accept('inrange'); it = s.type(); idx.append((it, s.value(it)))
                s.expect(')')
                return ('gep', bt, pt, base, idx)
            if v in ('add', 'sub', 'mul', 'and', 'or', 'xor', 'shl', 'lshr', 'ashr', 'udiv', 'sdiv', 'urem', 'srem'):
                while s.peek()[1] in ('nsw', 'nuw', 'exact'): s.next()
                s.expect('('); t1 = s.type(); a = s.value(t1); s.expect(','); t2 = s.type(); b = s.value(t2); s.expect(')')
                return ('binop', v, t1, a, b)
            if v == 'icmp':
                pred = s.next()[1]; s.expect('('); t1 = s.type(); a = s.value(t1); s.expect(','); t2 = s.type(); b = s.value(t2); s.expect(')')
                return ('icmp', pred, t1, a, b)
            if v == 'select':
                s.expect('('); tc = s.type(); c = s.value(tc); s.expect(','); t1 = s.type(); a = s.value(t1); s.expect(','); t2 = s.type(); b = s.value(t2); s.expect(')')
                return ('select', c, t1, a, b)
            raise SyntaxError('value word ' + v)
        if v == '{' or (v == '<' and s.peek()[1] == '{'):
            packed = v == '<'
            if packed: s.next()
            els = []
            while not s.accept('}'):
                t = s.type(); els.append((t, s.value(t))); s.accept(',')
            if packed: s.expect('>')
            return ('agg', els)
        if v == '[' or v == '<':
            close = ']' if v == '[' else '>'
            els = []
            while not s.accept(close):
                t = s.type(); els.append((t, s.value(t))); s.accept(',')
            return ('agg', els)
        raise SyntaxError('value %r' % ((k, v),))

# ---------------------------------------------------------------- module
class Func:
    def __init__(s): s.name = None; s.ret = None; s.params = []; s.va = False; s.blocks = collections.OrderedDict(); s.linkage = ''; s.defined = False
class Glob:
    def __init__(s): s.name = None; s.ty = None; s.init = None; s.tls = False; s.const = False; s.defined = False

LINK = {'private','internal','available_externally','linkonce','weak','common','appending','extern_weak','linkonce_odr','weak_odr','external',
        'hidden','protected','default','dso_local','dso_preemptable','unnamed_addr','local_unnamed_addr','dllimport','dllexport'}

class Module:
    def __init__(s, text):
        s.types = collections.OrderedDict(); s.globs = collections.OrderedDict(); s.funcs = collections.OrderedDict()
        s.parse(text)
    def parse(s, text):
        lines = text.split('\n'); i = 0
        while i < len(lines):
            ln = lines[i]; i += 1
            if not ln or ln[0] in ';!$' or ln.startswith(('source_filename', 'target ', 'attributes ', 'module asm')): continue
            if ln[0] == '%':
                p = P(tokenize(ln)); name = p.next()[1][1:].strip('"'); p.expect('='); p.expect('type')
                s.types[name] = p.type(); continue
            if ln[0] == '@':
                s.parse_global(ln); continue
            if ln.startswith('declare'):
                f = s.parse_fhead(ln[len('declare'):]); s.funcs.setdefault(f.name, f); continue
            if ln.startswith('define'):
                f = s.parse_fhead(ln[len('define'):].rsplit('{', 1)[0]); f.defined = True
                cur = None; first = True
                while True:
                    b = lines[i]; i += 1
                    if b == '}': break
                    if not b.strip(): continue
                    m = re.match(r'^([-\w.$]+|"[^"]*"):', b)
                    if m:
                        cur = m.group(1).strip('"'); f.blocks[cur] = []; continue
                    if cur is None:
                        cur = str(len(f.params)) if first else cur  # implicit entry label = next unnamed value number
                        # entry label number: count unnamed params
                        f.blocks[cur] = []
                    first = False
                    if b.lstrip().startswith(';'): continue
                    bb = b.strip()
                    # switch spans lines
                    if bb.startswith('switch') and bb.endswith('['):
                        while not lines[i].strip().startswith(']'):
                            bb += ' ' + lines[i].strip(); i += 1
                        bb += ' ]'; i += 1
                    f.blocks[cur].append(bb)
                s.funcs[f.name] = f; continue
            raise SyntaxError('toplevel: ' + ln[:80])
    def parse_global(s, ln):
        # strip trailing ", align N" / section / comdat / metadata
        ln = re.sub(r',\s*![\w.]+ ![\w.]+', '', ln)
        toks = tokenize(ln); p = P(toks)
        g = Glob(); g.name = p.next()[1][1:].strip('"'); p.expect('=')
        while p.peek()[1] in LINK:
            if p.next()[1] in ('external', 'extern_weak'): g.defined = None
        if p.peek()[1] == 'thread_local':
            p.next(); g.tls = True
            if p.accept('('): p.next(); p.expect(')')
        while p.peek()[1] in LINK: p.next()
        if p.peek()[1] == 'alias' or p.peek()[1] == 'ifunc':
            p.next(); t = p.type(); p.expect(',')
            if p.peek()[0] == 'word' and p.peek()[1] in ('getelementptr', 'bitcast', 'inttoptr', 'addrspacecast'): t2 = PTR(t); v = p.value(t2)
            else: t2 = p.type(); v = p.value(t2)
            g.alias = v; g.alias_ty = t2; g.ty = t; g.defined = 'alias'; s.globs[g.name] = g; return
        if p.accept('externally_initialized'): pass
        kw = p.next()[1]; assert kw in ('global', 'constant'), ln[:100]
        g.const = kw == 'constant'
        g.ty = p.type()
        if g.defined is None: g.defined = False
        else:
            g.defined = True; g.init = p.value(g.ty)
        s.globs[g.name] = g
    def parse_fhead(s, txt):
        toks = tokenize(txt); p = P(toks); f = Func()
        CC = {'ccc','fastcc','coldcc','cc','tailcc'}
        while True:
            v = p.peek()[1]
            if v in LINK or v in CC or v in P.PATTR: p.next(); f.linkage += v + ' '
            elif v in ('align','dereferenceable','dereferenceable_or_null'): p.skip_param_attrs()
            else: break
        f.ret = p.type()
        # ret type parser may have swallowed nothing of the name since name is a gid
        f.name = p.next()[1][1:].strip('"'); p.expect('(')
        n = 0
        while not p.accept(')'):
            if p.peek()[0] == 'dots': p.next(); f.va = True
            else:
                t = p.type(); p.skip_param_attrs()
                if p.peek()[0] == 'lid': nm = p.next()[1][1:].strip('"')
                else: nm = None
                f.params.append([t, nm])
            p.accept(',')
        # number unnamed params
        c = 0
        for q in f.params:
            if q[1] is None: q[1] = str(c); c += 1
            elif q[1].isdigit(): c = int(q[1]) + 1
        f.nparams_unnamed = c
        return f

# ---------------------------------------------------------------- C emission
def stdw(n):
    for w in (8, 16, 32, 64, 128):
        if n <= w: return w
    raise ValueError(n)
def cid(n):
    return re.sub(r'[^A-Za-z0-9_]', '_', n)

class Emitter:
    def __init__(s, mod, stubs=(), trap='assert'):
        s.m = mod; s.stubs = set(stubs); s.tnames = {}; s.nodes = collections.OrderedDict(); s.fwd = []
        s.anon = 0
    # ---- types
    def resolve(s, t):
        while t.k == 'named':
            r = s.m.types.get(t.a)
            if r is None: raise KeyError('type ' + t.a)
            if r.k == 'opaque': return r
            t = r
        return t
    def cty(s, t):
        k = t.key()
        if k in s.tnames: return s.tnames[k]
        node = None
        if t.k == 'int':
            n = t.a
            if n == 1: r = '_Bool'
            elif n in (8, 16, 32, 64): r = 'u%d' % n
            elif n == 128: r = 'u128'
            else:
                r = 'u%d' % stdw(n)
        elif t.k == 'void': r = 'void'
        elif t.k == 'float': r = 'float'
        elif t.k == 'double': r = 'double'
        elif t.k == 'x86_fp80': r = 'long double'
        elif t.k == 'opaque': r = 'void'
        elif t.k == 'ptr':
            if t.a.k == 'int' and t.a.a == 8: r = 'u8*'
            else: r = s.cty(t.a) + '*'
        elif t.k in ('named', 'struct'):
            if t.k == 'named':
                r = cid(t.a); body = s.m.types[t.a]
            else:
                s.anon += 1; r = 'anon_s%d' % s.anon; body = t
            s.tnames[k] = r
            s.fwd.append('typedef struct %s %s;' % (r, r))
            if body.k != 'opaque':
                fs = ['%s f%d;' % (s.cty(f), i) for i, f in enumerate(body.a)] or ['char _empty[0];']
                s.nodes[r] = ('struct %s { %s }%s;' % (r, ' '.join(fs), ' __attribute__((packed))' if body.b else ''),
                              [d for f in body.a for d in s.deps(f, True)])
            return r
        elif t.k == 'arr':
            e = s.cty(t.b)
            s.anon += 1; r = 'arr%d_%d' % (t.a, s.anon)
            node = ('typedef %s %s[%d];' % (e, r, t.a), s.deps(t.b, True))
        elif t.k == 'fn':
            rt = s.cty(t.a); ps = [s.cty(x) for x in t.b]
            s.anon += 1; r = 'fn%d' % s.anon
            args = ', '.join(ps) if ps else ('void' if not t.c else '')
            if t.c: args = (args + ', ...') if ps else '...'
            node = ('typedef %s %s(%s);' % (rt, r, args), [d for x in [t.a] + t.b for d in s.deps(x, False)])
        elif t.k == 'vec':
            raise NotImplementedError('vector type')
        else: raise NotImplementedError(t.k)
        s.tnames[k] = r
        if node: s.nodes[r] = node
        return r
    def deps(s, t, complete):
        """names of type-definition nodes that must precede a use of t (complete: t is used by value)"""
        if t.k == 'ptr': return s.deps(t.a, False)
        if t.k in ('named', 'struct'):
            n = s.cty(t)
            return [n] if complete else []
        if t.k in ('arr', 'fn'): return [s.cty(t)]
        
        return []
    def typedefs(s):
        out = []; done = set()
        def visit(n, stack=()):
            if n in done or n not in s.nodes: return
            if n in stack: return
            text, ds = s.nodes[n]
            for d in ds: visit(d, stack + (n,))
            done.add(n); out.append(text)
        for n in list(s.nodes): visit(n)
        return out

    # ---- type computations
    def gep_type(s, bt, idx):
        """result pointee type of a GEP with base element type bt and index list (first index steps over bt)."""
        t = bt
        for (it, iv) in idx[1:]:
            rt = s.resolve(t)
            if rt.k == 'struct':
                assert iv[0] == 'int', 'struct index must be const'
                t = rt.a[iv[1]]
            elif rt.k in ('arr', 'vec'): t = rt.b
            else: raise ValueError('gep into ' + rt.k)
        return t

    def gep_expr(s, bt, base_c, idx, valfn):
        """C lvalue expression designating the GEP target."""
        it0, iv0 = idx[0]
        i0 = valfn(it0, iv0)
        e = '(*(%s))' % base_c if i0 in ('0', '0u', '(u64)0', '(u32)0') else '(%s)[%s]' % (base_c, s.sidx(it0, i0))
        t = bt
        for (it, iv) in idx[1:]:
            rt = s.resolve(t)
            if rt.k == 'struct':
                e += '.f%d' % iv[1]; t = rt.a[iv[1]]
            else:
                e += '[%s]' % s.sidx(it, valfn(it, iv)); t = rt.b
        return e
    def sidx(s, it, c):
        # GEP indices are signed
        if re.fullmatch(r'-?\d+', c): return c
        return '(s%d)%s' % (it.a, c)

    # ---- constants
    def const(s, ty, v):
        k = v[0]
        if k == 'int':
            n = v[1]
            if ty.k == 'int':
                w = ty.a
                if w == 1: return '1' if n & 1 else '0'
                n &= (1 << w) - 1
                if w <= 32: return '%du' % n
                if w <= 64: return '%dull' % n
                return '((%s)%dull)' % (s.cty(ty), n) if n < (1 << 64) else '(((%s)%dull << 64) | %dull)' % (s.cty(ty), n >> 64, n & ((1 << 64) - 1))
            return str(n)
        if k == 'true': return '1'
        if k == 'false': return '0'
        if k == 'null': return '((%s)0)' % s.cty(ty)
        if k in ('undef', 'poison', 'zeroinitializer'):
            rt = s.resolve(ty) if ty.k == 'named' else ty
            if rt.k in ('struct', 'arr'): return '{}' if s.in_init else '(%s){}' % s.cty(ty)
            if rt.k == 'ptr': return '((%s)0)' % s.cty(ty)
            return '0'
        if k == 'glob':
            g = s.m.globs.get(v[1])
            if g is not None and g.defined == 'alias':
                return '((%s*)%s)' % (s.cty(g.ty), s.const(g.alias_ty, g.alias))
            s.ref_global(v[1])
            return '(&%s)' % s.gname(v[1]) if v[1] in s.m.globs else '(&%s)' % cid(v[1])
        if k == 'cast':
            _, op, t1, x, t2 = v
            inner = s.const(t1, x)
            if op == 'ptrtoint': return '((%s)(u64)%s)' % (s.cty(t2), inner)
            if op == 'inttoptr': return '((%s)(u64)%s)' % (s.cty(t2), inner)
            return '((%s)%s)' % (s.cty(t2), inner)
        if k == 'gep':
            _, bt, pt, base, idx = v
            b = s.const(pt, base)
            return '(&%s)' % s.gep_expr(bt, b, idx, s.const)
        if k == 'binop':
            _, op, t, a, b = v
            return s.binop(op, t, s.const(t, a), s.const(t, b))
        if k == 'icmp':
            _, pred, t, a, b = v
            return s.icmp(pred, t, s.const(t, a), s.const(t, b))
        if k == 'select':
            _, c, t, a, b = v
            return '(%s ? %s : %s)' % (s.const(INT(1), c), s.const(t, a), s.const(t, b))
        if k == 'agg':
            body = '{ ' + ', '.join(s.const(t, x) for t, x in v[1]) + ' }'
            if not v[1]: body = '{}'
            return body if s.in_init else '(%s)%s' % (s.cty(ty), body)
        if k == 'cstr':
            bs = decode_cstr(v[1])
            body = '{ ' + ', '.join(str(b) for b in bs) + ' }'
            return body if s.in_init else '(%s)%s' % (s.cty(ty), body)
        if k == 'flt': return v[1] if not v[1].startswith('0x') else hexfloat(v[1])
        raise NotImplementedError('const ' + k)
    in_init = False

    def gname(s, n):
        return cid(n) if not n.startswith('.') else 'g' + cid(n)

    # ---- operations
    def sc(s, t, e):
        w = t.a
        if w in (8, 16, 32, 64, 128): return '((s%d)%s)' % (w, e)
        W = stdw(w)   # sign-extend from bit w-1 inside the storage type
        return '((s%d)((s%d)((u%d)%s << %d) >> %d))' % (W, W, W, e, W - w, W - w)
    def mask(s, t, e):
        if t.k == 'int' and t.a not in (1, 8, 16, 32, 64, 128):
            return '((%s)(%s & (((u%d)1 << %d) - 1)))' % (s.cty(t), e, stdw(t.a), t.a)
        return e
    def binop(s, op, t, a, b):
        ct = s.cty(t)
        if t.k == 'int' and t.a == 1:
            o = {'add': '^', 'sub': '^', 'mul': '&', 'and': '&', 'or': '|', 'xor': '^'}.get(op)
            if o: return '((_Bool)(%s %s %s))' % (a, o, b)
        o = {'add': '+', 'sub': '-', 'mul': '*', 'and': '&', 'or': '|', 'xor': '^', 'shl': '<<', 'lshr': '>>', 'udiv': '/', 'urem': '%'}.get(op)
        if o: return s.mask(t, '((%s)((%s)%s %s (%s)%s))' % (ct, ct, a, o, ct, b))
        if op == 'ashr': return s.mask(t, '((%s)(%s >> %s))' % (ct, s.sc(t, a), b))
        if op == 'sdiv': return s.mask(t, '((%s)(%s / %s))' % (ct, s.sc(t, a), s.sc(t, b)))
        if op == 'srem': return s.mask(t, '((%s)(%s %% %s))' % (ct, s.sc(t, a), s.sc(t, b)))
        raise NotImplementedError(op)
    def icmp(s, pred, t, a, b):
        if t.k == 'ptr':
            if pred in ('eq', 'ne'): return '(%s %s %s)' % (a, '==' if pred == 'eq' else '!=', b)
            a = '((u64)%s)' % a; b = '((u64)%s)' % b; t = INT(64)
        o = {'eq': '==', 'ne': '!=', 'ugt': '>', 'uge': '>=', 'ult': '<', 'ule': '<=', 'sgt': '>', 'sge': '>=', 'slt': '<', 'sle': '<='}[pred]
        if pred[0] == 's' and pred != 'slt_' and pred not in ('eq', 'ne') and pred.startswith('s'):
            return '(%s %s %s)' % (s.sc(t, a), o, s.sc(t, b))
        ct = s.cty(t)
        return '((%s)%s %s (%s)%s)' % (ct, a, o, ct, b)

    # ---- reachability
    def ref_global(s, n):
        if n in s.m.funcs:
            if n not in s.fseen: s.fseen.add(n); s.fwork.append(n)
        elif n in s.m.globs:
            if n not in s.gseen: s.gseen.add(n); s.gwork.append(n)

    # ---- function translation
    def translate(s, entries):
        s.fseen = set(); s.fwork = []; s.gseen = set(); s.gwork = []
        for e in entries: s.ref_global(e)
        fbodies = []; gdefs = []
        while s.fwork or s.gwork:
            while s.fwork:
                n = s.fwork.pop()
                f = s.m.funcs[n]
                if f.defined and n not in s.stubs and not n.startswith('llvm.'):
                    fbodies.append(s.func(f))
            while s.gwork:
                n = s.gwork.pop(); g = s.m.globs[n]
                gdefs.append(s.globdef(g))
        protos = []
        for n in sorted(s.fseen):
            f = s.m.funcs[n]
            if n.startswith('llvm.'): continue
            protos.append(s.proto(f) + ';')
        gdecl = []
        for n in sorted(s.gseen):
            g = s.m.globs[n]
            if g.defined == 'alias': continue
            gdecl.append('extern %s%s %s;' % ('__CPROVER_thread_local ' if g.tls else '', s.cty(g.ty), s.gname(n)))
        out = ['#include "ir2c_prelude.h"', '/* ---- types ---- */'] + s.fwd + s.typedefs() + ['/* ---- globals ---- */'] + gdecl + ['/* ---- prototypes ---- */'] + protos + ['/* ---- global definitions ---- */'] + gdefs + ['/* ---- functions ---- */'] + fbodies
        return '\n'.join(out) + '\n'
    def proto(s, f):
        ps = ['%s %s' % (s.cty(t), 'a_' + cid(n)) for t, n in f.params]
        args = ', '.join(ps) if ps else ('void' if not f.va else '')
        if f.va: args = (args + ', ...') if ps else '...'
        return '%s %s(%s)' % (s.cty(f.ret), cid(f.name), args)
    def globdef(s, g):
        if g.defined == 'alias': return '/* alias %s */' % g.name
        if not g.defined: return '/* extern %s */' % g.name
        s.in_init = True
        try: init = s.const(g.ty, g.init)
        finally: s.in_init = False
        rt = g.ty
        return '%s%s %s = %s;' % ('__CPROVER_thread_local ' if g.tls else '', s.cty(g.ty), s.gname(g.name), init)

    def func(s, f):
        s.vt = {}  # local value types
        for t, n in f.params: s.vt[n] = t
        decls = []; body = []
        # pre-scan phis for block-edge copies
        insts = {}
        for bl, lines in f.blocks.items():
            insts[bl] = [s.parse_inst(l) for l in lines]
        # determine types of all results first (needed for forward refs in phi)
        for bl in insts:
            for ins in insts[bl]:
                if ins and ins.get('res') is not None: s.vt[ins['res']] = ins['rty']
        phis = {bl: [i for i in insts[bl] if i and i['op'] == 'phi'] for bl in insts}
        def L(b): return 'L_' + cid(b)
        def val(t, v): return s.val(t, v)
        def edge(frm, to):
            ps = phis.get(to, [])
            if not ps: return 'goto %s;' % L(to)
            tmp = []; asg = []
            for p in ps:
                for (v, b) in p['inc']:
                    if b == frm:
                        if any(x.startswith('%s t_%s =' % (s.cty(p['rty']), (s.ln0 if hasattr(s, 'ln0') else s.ln)(p['res']))) for x in tmp): continue
                        tmp.append('%s t_%s = %s;' % (s.cty(p['rty']), s.ln(p['res']), val(p['rty'], v)))
                        asg.append('%s = t_%s;' % (s.ln(p['res']), s.ln(p['res'])))
            return '{ ' + ' '.join(tmp + asg) + ' goto %s; }' % L(to)
        for bl in insts:
            body.append('%s: ;' % L(bl))
            for ins in insts[bl]:
                if not ins or ins['op'] == 'phi': continue
                body.append('  ' + s.emit_inst(ins, bl, edge))
        for n, t in s.vt.items():
            if any(n == pn for _, pn in f.params): continue
            if t.k == 'void': continue
            decls.append('  %s %s;' % (s.cty(t), s.ln(n)))
        ps = ['%s %s' % (s.cty(t), s.ln(n)) for t, n in f.params]
        args = ', '.join(ps) if ps else ('void' if not f.va else '')
        if f.va: args = (args + ', ...') if ps else '...'
        head = '%s %s(%s)' % (s.cty(f.ret), cid(f.name), args)
        return head + ' {\n' + '\n'.join(decls + s.extra_decls + body) + '\n}\n'
    extra_decls = []
    def ln(s, n): return 'r' + cid(n) if n[0].isdigit() or n[0] == '.' else 'v_' + cid(n)
    def val(s, t, v):
        if v[0] == 'loc': return s.ln(v[1])
        return s.const(t, v)

    # ---- instruction parsing: returns dict
    def parse_inst(s, line):
        line = re.sub(r',\s*![\w.]+ ![\w.]+', '', line)   # strip metadata attachments
        line = re.sub(r'\s+#\d+', '', line)
        toks = tokenize(line); p = P(toks)
        res = None
        if p.peek()[0] == 'lid' and p.peek(1)[1] == '=':
            res = p.next()[1][1:].strip('"'); p.next()
        op = p.next()[1]
        while op in ('tail', 'musttail', 'notail'): op = p.next()[1]
        d = {'op': op, 'res': res, 'rty': None, 'line': line}
        if op in ('add', 'sub', 'mul', 'and', 'or', 'xor', 'shl', 'lshr', 'ashr', 'udiv', 'sdiv', 'urem', 'srem'):
            fl = []
            while p.peek()[1] in ('nsw', 'nuw', 'exact'): fl.append(p.next()[1])
            t = p.type(); a = p.value(t); p.expect(','); b = p.value(t)
            d.update(t=t, a=a, b=b, rty=t, flags=fl)
        elif op == 'icmp':
            pred = p.next()[1]; t = p.type(); a = p.value(t); p.expect(','); b = p.value(t)
            d.update(pred=pred, t=t, a=a, b=b, rty=INT(1))
        elif op in ('trunc', 'zext', 'sext', 'bitcast', 'inttoptr', 'ptrtoint', 'addrspacecast', 'sitofp', 'uitofp', 'fptosi', 'fptoui', 'fpext', 'fptrunc'):
            t = p.type(); a = p.value(t); p.expect('to'); t2 = p.type()
            d.update(t=t, a=a, rty=t2)
        elif op == 'load':
            at = p.accept('atomic'); p.accept('volatile')
            t = p.type(); p.expect(','); pt = p.type(); a = p.value(pt)
            order = None
            if at:
                if p.peek()[1] == 'syncscope': p.next(); p.expect('('); p.next(); p.expect(')')
                order = p.next()[1]
            d.update(t=t, pt=pt, a=a, rty=t, atomic=at, order=order)
        elif op == 'store':
            at = p.accept('atomic'); p.accept('volatile')
            t = p.type(); v = p.value(t); p.expect(','); pt = p.type(); a = p.value(pt)
            order = None
            if at:
                if p.peek()[1] == 'syncscope': p.next(); p.expect('('); p.next(); p.expect(')')
                order = p.next()[1]
            d.update(t=t, v=v, pt=pt, a=a, atomic=at, order=order)
        elif op == 'getelementptr':
            p.accept('inbounds'); bt = p.type(); p.expect(','); pt = p.type(); base = p.value(pt); idx = []
            while p.accept(','):
                it = p.type(); idx.append((it, p.value(it)))
            d.update(bt=bt, pt=pt, base=base, idx=idx, rty=PTR(s.gep_type(bt, idx)))
        elif op == 'alloca':
            p.accept('inalloca'); t = p.type(); n = None
            if p.accept(','):
                if p.peek()[1] == 'align': pass
                else:
                    nt = p.type(); n = (nt, p.value(nt))
            d.update(t=t, n=n, rty=PTR(t))
        elif op == 'phi':
            t = p.type(); inc = []
            while True:
                p.expect('['); v = p.value(t); p.expect(','); b = p.next()[1][1:].strip('"'); p.expect(']')
                inc.append((v, b))
                if not p.accept(','): break
            d.update(rty=t, inc=inc)
        elif op == 'select':
            tc = p.type(); c = p.value(tc); p.expect(','); t = p.type(); a = p.value(t); p.expect(','); t2 = p.type(); b = p.value(t2)
            d.update(c=c, t=t, a=a, b=b, rty=t)
        elif op == 'call':
            while p.peek()[1] in ('fastcc', 'ccc', 'coldcc') or p.peek()[1] in P.PATTR: p.next()
            p.skip_param_attrs()
            rt = p.type()
            # rt may be a function type (for varargs calls: "i32 (i8*, ...) @printf")
            if p.peek()[1] == 'asm':
                p.next()
                while p.peek()[1] in ('sideeffect', 'alignstack', 'inteldialect', 'unwind'): p.next()
                asm = p.next()[1]; p.expect(','); cons = p.next()[1]
                callee = ('asm', asm, cons)
            else:
                callee = p.value(None)
            p.expect('('); args = []; aligns = []
            while not p.accept(')'):
                t = p.type(); p.skip_param_attrs(); aligns.append(p.last_align)
                if t.k == 'metadata':
                    # skip metadata operand
                    depth = 0
                    while not (depth == 0 and p.peek()[1] in (',', ')')):
                        x = p.next()[1]
                        if x == '(': depth += 1
                        elif x == ')': depth -= 1
                    args.append((t, ('null',)))
                else: args.append((t, p.value(t)))
                p.accept(',')
            fty = None
            if rt.k == 'fn': fty = rt; rt = fty.a
            d.update(callee=callee, args=args, rty=rt, fty=fty, aligns=aligns)
        elif op == 'br':
            if p.peek()[1] == 'label': p.next(); d.update(dest=p.next()[1][1:].strip('"'))
            else:
                t = p.type(); c = p.value(t); p.expect(','); p.expect('label'); a = p.next()[1][1:].strip('"'); p.expect(','); p.expect('label'); b = p.next()[1][1:].strip('"')
                d.update(c=c, a=a, b=b)
        elif op == 'switch':
            t = p.type(); v = p.value(t); p.expect(','); p.expect('label'); dflt = p.next()[1][1:].strip('"'); p.expect('[')
            cases = []
            while not p.accept(']'):
                ct = p.type(); cv = p.value(ct); p.expect(','); p.expect('label'); cases.append((cv, p.next()[1][1:].strip('"')))
            d.update(t=t, v=v, dflt=dflt, cases=cases)
        elif op == 'ret':
            t = p.type()
            d.update(t=t, v=None if t.k == 'void' else p.value(t))
        elif op == 'unreachable': pass
        elif op == 'atomicrmw':
            p.accept('volatile'); o = p.next()[1]; pt = p.type(); a = p.value(pt); p.expect(','); t = p.type(); v = p.value(t)
            if p.peek()[1] == 'syncscope': p.next(); p.expect('('); p.next(); p.expect(')')
            order = p.next()[1]
            d.update(rmw=o, pt=pt, a=a, t=t, v=v, order=order, rty=t)
        elif op == 'cmpxchg':
            weak = p.accept('weak'); p.accept('volatile'); pt = p.type(); a = p.value(pt); p.expect(','); t = p.type(); e = p.value(t); p.expect(','); t2 = p.type(); n = p.value(t2)
            if p.peek()[1] == 'syncscope': p.next(); p.expect('('); p.next(); p.expect(')')
            so = p.next()[1]; fo = p.next()[1]
            d.update(weak=weak, pt=pt, a=a, t=t, e=e, n=n, so=so, fo=fo, rty=T('struct', [t, INT(1)], False))
        elif op == 'fence':
            if p.peek()[1] == 'syncscope': p.next(); p.expect('('); p.next(); p.expect(')')
            d.update(order=p.next()[1])
        elif op == 'extractvalue':
            t = p.type(); a = p.value(t); idx = []
            while p.accept(','): idx.append(int(p.next()[1]))
            rt = t
            for i in idx:
                r = s.resolve(rt); rt = r.a[i] if r.k == 'struct' else r.b
            d.update(t=t, a=a, idx=idx, rty=rt)
        elif op == 'insertvalue':
            t = p.type(); a = p.value(t); p.expect(','); t2 = p.type(); v = p.value(t2); idx = []
            while p.accept(','): idx.append(int(p.next()[1]))
            d.update(t=t, a=a, t2=t2, v=v, idx=idx, rty=t)
        elif op == 'freeze':
            t = p.type(); a = p.value(t); d.update(t=t, a=a, rty=t)
        elif op == 'va_arg':
            t = p.type(); a = p.value(t); p.expect(','); t2 = p.type(); d.update(t=t, a=a, rty=t2)
        else:
            raise NotImplementedError('inst ' + op + ': ' + line)
        return d

    def emit_inst(s, d, bl, edge):
        op = d['op']; r = s.ln(d['res']) if d['res'] is not None else None
        V = s.val
        if op in ('add', 'sub', 'mul', 'and', 'or', 'xor', 'shl', 'lshr', 'ashr', 'udiv', 'sdiv', 'urem', 'srem'):
            return '%s = %s;' % (r, s.binop(op, d['t'], V(d['t'], d['a']), V(d['t'], d['b'])))
        if op == 'icmp': return '%s = %s;' % (r, s.icmp(d['pred'], d['t'], V(d['t'], d['a']), V(d['t'], d['b'])))
        if op in ('trunc', 'zext', 'bitcast', 'addrspacecast', 'uitofp', 'fptoui', 'fpext', 'fptrunc'):
            a = V(d['t'], d['a'])
            if op == 'trunc' and d['rty'].a == 1: return '%s = (_Bool)(%s & 1);' % (r, a)
            return '%s = %s;' % (r, s.mask(d['rty'], '(%s)%s' % (s.cty(d['rty']), a)))
        if op == 'sext':
            a = V(d['t'], d['a'])
            if d['t'].a == 1: return '%s = (%s)(%s ? -1 : 0);' % (r, s.cty(d['rty']), a)
            return '%s = %s;' % (r, s.mask(d['rty'], '(%s)(s%d)%s' % (s.cty(d['rty']), stdw(d['rty'].a), s.sc(d['t'], a))))
        if op in ('sitofp',): return '%s = (%s)%s;' % (r, s.cty(d['rty']), s.sc(d['t'], V(d['t'], d['a'])))
        if op in ('fptosi',): return '%s = (%s)(s%d)%s;' % (r, s.cty(d['rty']), d['rty'].a, V(d['t'], d['a']))
        if op == 'inttoptr': return '%s = (%s)(u64)%s;' % (r, s.cty(d['rty']), V(d['t'], d['a']))
        if op == 'ptrtoint': return '%s = (%s)(u64)%s;' % (r, s.cty(d['rty']), V(d['t'], d['a']))
        if op == 'load':
            a = V(d['pt'], d['a'])
            if d['atomic']: return '%s = ATOMIC_LOAD(%s, %s, ORD_%s);' % (r, s.cty(d['t']), a, d['order'])
            return '%s = *%s;' % (r, a)
        if op == 'store':
            a = V(d['pt'], d['a']); v = V(d['t'], d['v'])
            if d['atomic']: return 'ATOMIC_STORE(%s, %s, %s, ORD_%s);' % (s.cty(d['t']), a, v, d['order'])
            return '*%s = %s;' % (a, v)
        if op == 'getelementptr':
            return '%s = &%s;' % (r, s.gep_expr(d['bt'], V(d['pt'], d['base']), d['idx'], V))
        if op == 'alloca':
            if d['n'] is None or d['n'][1] == ('int', 1):
                return '%s %s_mem; %s = &%s_mem;' % (s.cty(d['t']), r, r, r)
            return '%s = (%s)__builtin_alloca(sizeof(%s) * %s);' % (r, s.cty(d['rty']), s.cty(d['t']), V(d['n'][0], d['n'][1]))
        if op == 'select': return '%s = %s ? %s : %s;' % (r, V(INT(1), d['c']), V(d['t'], d['a']), V(d['t'], d['b']))
        if op == 'freeze': return '%s = %s;' % (r, V(d['t'], d['a']))
        if op == 'br':
            if 'dest' in d: return edge(bl, d['dest'])
            return 'if (%s) %s else %s' % (V(INT(1), d['c']), edge(bl, d['a']), edge(bl, d['b']))
        if op == 'switch':
            cs = ' '.join('case %s: %s' % (s.const(d['t'], cv), edge(bl, lab)) for cv, lab in d['cases'])
            return 'switch (%s) { %s default: %s }' % (V(d['t'], d['v']), cs, edge(bl, d['dflt']))
        if op == 'ret': return 'return;' if d['v'] is None else 'return %s;' % V(d['t'], d['v'])
        if op == 'unreachable': return 'IR_UNREACHABLE();'
        if op == 'atomicrmw':
            return '%s = ATOMIC_RMW_%s(%s, %s, %s, ORD_%s);' % (r, d['rmw'], s.cty(d['t']), V(d['pt'], d['a']), V(d['t'], d['v']), d['order'])
        if op == 'cmpxchg':
            return 'ATOMIC_CMPXCHG(%s, %s, %s, %s, %s, %d, ORD_%s, ORD_%s);' % (r, s.cty(d['t']), V(d['pt'], d['a']), V(d['t'], d['e']), V(d['t'], d['n']), 1 if d['weak'] else 0, d['so'], d['fo'])
        if op == 'fence': return 'ATOMIC_FENCE(ORD_%s);' % d['order']
        if op == 'extractvalue':
            return '%s = %s%s;' % (r, V(d['t'], d['a']), ''.join('.f%d' % i for i in d['idx']))
        if op == 'insertvalue':
            return '%s = %s; %s%s = %s;' % (r, V(d['t'], d['a']), r, ''.join('.f%d' % i for i in d['idx']), V(d['t2'], d['v']))
        if op == 'call': return s.emit_call(d, r)
        raise NotImplementedError(op)

    INTRIN_DROP = ('llvm.dbg.', 'llvm.lifetime.', 'llvm.assume', 'llvm.prefetch', 'llvm.experimental.noalias', 'llvm.var.annotation', 'llvm.donothing')
    def emit_call(s, d, r):
        c = d['callee']; V = s.val
        args = [V(t, v) for t, v in d['args']]
        asg = '%s = ' % r if (r is not None and d['rty'].k != 'void') else ''
        if c[0] == 'asm':
            return '/* asm %s */ IR_ASM();' % c[1].replace('*/', '')
        if c[0] == 'glob':
            n = c[1]
            if n.startswith('llvm.'):
                if n.startswith(s.INTRIN_DROP): return ';'
                if n.startswith('llvm.expect'): return '%s%s;' % (asg, args[0])
                if n.startswith('llvm.trap') or n.startswith('llvm.debugtrap'): return 'IR_TRAP();'
                if n.startswith('llvm.memcpy') or n.startswith('llvm.memmove'):
                    return '%s((void*)%s, (const void*)%s, %s);' % ('memcpy' if 'memcpy' in n else 'memmove', args[0], args[1], args[2])
                if n.startswith('llvm.memset'): return 'memset((void*)%s, %s, %s);' % (args[0], args[1], args[2])
                m = re.match(r'llvm\.([us])(add|sub|mul)\.with\.overflow\.i(\d+)', n)
                if m:
                    sg, o, w = m.groups(); ct = ('s' if sg == 's' else 'u') + w
                    return '{ %s ov_t; %s.f1 = __builtin_%s_overflow((%s)%s, (%s)%s, &ov_t); %s.f0 = (u%s)ov_t; }' % (ct, r, o, ct, args[0], ct, args[1], r, w)
                m = re.match(r'llvm\.(ctlz|cttz|ctpop|bswap)\.i(\d+)', n)
                if m:
                    return '%sIR_%s%s(%s);' % (asg, m.group(1).upper(), m.group(2), args[0])
                m = re.match(r'llvm\.(umax|umin|smax|smin)\.i(\d+)', n)
                if m:
                    o, w = m.groups(); cast = ('(s%s)' % w) if o[0] == 's' else ''
                    cmp_ = '>' if o.endswith('max') else '<'
                    return '%s(%s%s %s %s%s) ? %s : %s;' % (asg, cast, args[0], cmp_, cast, args[1], args[0], args[1])
                if n.startswith('llvm.objectsize'): return '%s(u64)-1;' % asg
                if n.startswith('llvm.is.constant'): return '%s0;' % asg
                if n.startswith('llvm.va_start') or n.startswith('llvm.va_end') or n.startswith('llvm.va_copy'): return 'IR_VA(%s);' % args[0]
                if n.startswith('llvm.stacksave'): return '%s(u8*)0;' % asg
                if n.startswith('llvm.stackrestore'): return ';'
                if n.startswith('llvm.frameaddress') or n.startswith('llvm.returnaddress'): return '%s(u8*)0;' % asg
                raise NotImplementedError('intrinsic ' + n)
            s.ref_global(n)
            f = s.m.funcs.get(n)
            # cast args to prototype types when it is a known function (C is stricter about pointer types than needed)
            return '%s%s(%s);' % (asg, cid(n), ', '.join(args))
        # indirect (or constant-expression casted) callee
        if d['fty'] is not None: fty = d['fty']
        else: fty = T('fn', d['rty'], [t for t, _ in d['args']], False)
        if c[0] == 'loc': ce = s.ln(c[1])
        else: ce = s.const(PTR(fty), c)
        return '%s((%s*)%s)(%s);' % (asg, s.cty(fty), ce, ', '.join(args))

def decode_cstr(x):
    out = []; i = 0
    while i < len(x):
        if x[i] == '\\':
            if x[i+1] == '\\': out.append(92); i += 2
            else: out.append(int(x[i+1:i+3], 16)); i += 3
        else: out.append(ord(x[i])); i += 1
    return out
def hexfloat(h):
    import struct
    return repr(struct.unpack('>d', bytes.fromhex(h[2:].rjust(16, '0')))[0])

def main():
    ap = argparse.ArgumentParser()
    ap.add_argument('ll'); ap.add_argument('--entry', required=True); ap.add_argument('--stub', default=''); ap.add_argument('-o', default='-')
    a = ap.parse_args()
    m = Module(open(a.ll).read())
    e = Emitter(m, [x for x in a.stub.split(',') if x])
    out = e.translate([x for x in a.entry.split(',') if x])
    if a.o == '-': sys.stdout.write(out)
    else: open(a.o, 'w').write(out)
    defined = [n for n in e.fseen if m.funcs[n].defined and n not in e.stubs]
    undefined = [n for n in e.fseen if not (m.funcs[n].defined and n not in e.stubs) and not n.startswith('llvm.')]
    sys.stderr.write('ir2c: %d functions translated, %d external/stubbed: %s\n' % (len(defined), len(undefined), ' '.join(sorted(undefined))))

if __name__ == '__main__': main()
