#ifndef IR2FLAT_PRELUDE_H
#define IR2FLAT_PRELUDE_H
/* Flat memory model for C emitted by ir2flat.py.
   Address space: [0,IR_MEM_BASE) unmapped | globals | TLS blocks (one per model thread) | stack frames (one area per model thread) | heap.
   Memory is an array of 64-bit words; sub-word accesses are read-modify-write on the containing word and must be naturally aligned. */
typedef unsigned char u8; typedef unsigned short u16; typedef unsigned int u32; typedef unsigned long long u64;
typedef signed char s8; typedef short s16; typedef int s32; typedef long long s64;
typedef unsigned __int128 u128; typedef __int128 s128;
#ifndef IR_NT
#define IR_NT 1
#endif
#ifndef IR_HEAP_SIZE
#define IR_HEAP_SIZE 1024ull
#endif
#ifndef IR_STACK_EXTRA
#define IR_STACK_EXTRA 0ull
#endif
#define IR_MEM_BASE 0x10000ull
#define IR_ALIGN16(x) (((x) + 15ull) & ~15ull)
#define IR_TLS_BASE IR_ALIGN16(IR_GLOBALS_END)
#define IR_TLS_STRIDE IR_ALIGN16(IR_TLS_SIZE + 16ull)
#define IR_STACK_BASE (IR_TLS_BASE + IR_NT * IR_TLS_STRIDE)
#define IR_STACK_STRIDE IR_ALIGN16(IR_FRAMES_SIZE + IR_STACK_EXTRA + 16ull)
#define IR_HEAP_BASE (IR_STACK_BASE + IR_NT * IR_STACK_STRIDE)
#define IR_MEM_END (IR_HEAP_BASE + IR_HEAP_SIZE)
#define IR_MEM_WORDS ((IR_MEM_END - IR_MEM_BASE) / 8ull)

#ifndef IR_PAGED
u64 IR_MEM[IR_MEM_WORDS];
#endif
#ifdef IR_NATIVE_THREADS
__CPROVER_thread_local int ir_cur;     /* cbmc native threads: the model thread id is per thread */
#else
int ir_cur;
#endif
u64 ir_sp[IR_NT];   /* per model thread: next free byte of its stack area (frames are allocated per activation) */
#ifdef IR_NATIVE_THREADS
__CPROVER_thread_local u64 ir_sp_tl;    /* cbmc native threads: a thread-local stack pointer (a shared one would make every call a shared-memory event) */
#define IR_SP ir_sp_tl
#else
#define IR_SP ir_sp[ir_cur]
#endif
/* sequentialised threads: remaining visible operations of the running slice, yield flag, blocked flags */
unsigned ir_budget; _Bool ir_yielded; _Bool ir_blocked[IR_NT];
#ifndef IR_STEP
#define IR_STEP() ((void)0)
#endif

#ifdef __CPROVER__
#define IR_ASSERT(c, msg) __CPROVER_assert(c, msg)
#define IR_ASSUME(c) __CPROVER_assume(c)
#else
#define IR_ASSERT(c, msg) do { if (!(c)) { __builtin_printf("ASSERT FAIL: %s\n", msg); __builtin_printf("REPLAY: violation reproduced (model fault)\n"); __builtin_exit(0); } } while (0)
#define IR_ASSUME(c) do { if (!(c)) { __builtin_printf("ASSUME FALSE in model (%s:%d)\n", __FILE__, __LINE__); __builtin_exit(3); } } while (0)
#endif
#ifndef IR_TRAP
#define IR_TRAP() IR_ASSERT(0, "llvm.trap reached (DISPATCH_CLIENT_CRASH / DISPATCH_INTERNAL_CRASH / __builtin_trap)")
#endif
#define IR_UNREACHABLE() IR_ASSUME(0)
#ifdef __CPROVER__
#define IR_BAD_ICALL(fp) IR_ASSERT(0, "indirect call to an address that is no translated function of that signature")
#else
#define IR_BAD_ICALL(fp) do { __builtin_printf("BAD ICALL token %llu in %s\n", (unsigned long long)(fp), __func__); IR_ASSERT(0, "indirect call to an address that is no translated function of that signature"); } while (0)
#endif
#ifndef IR_VISIBLE
#define IR_VISIBLE() ((void)0)
#endif
#ifndef IR_VISIBLE_END
#define IR_VISIBLE_END() ((void)0)
#endif
/* hooks around every atomic instruction of the IR (memory order: 0 relaxed, 2 acquire, 3 release, 4 acq_rel, 5 seq_cst); harnesses use them to
   inject interference from other threads (tier S), to record state transitions, or to maintain happens-before clocks */
#ifndef IR_CAS_PRE
#define IR_CAS_PRE(a, o) ((void)0)
#endif
#ifndef IR_CAS_OK
#define IR_CAS_OK(a, old, nw, o) ((void)0)
#endif
#ifndef IR_CAS_FAIL
#define IR_CAS_FAIL(a, old, o) ((void)0)
#endif
#ifndef IR_RMW_PRE
#define IR_RMW_PRE(a, o) ((void)0)
#endif
#ifndef IR_RMW_DONE
#define IR_RMW_DONE(a, old, o) ((void)0)
#endif
#ifndef IR_ALOAD_PRE
#define IR_ALOAD_PRE(a, o) ((void)0)
#endif
#ifndef IR_ALOAD_DONE
#define IR_ALOAD_DONE(a, v, o) ((void)0)
#endif
#ifndef IR_ASTORE_PRE
#define IR_ASTORE_PRE(a, o) ((void)0)
#endif
#ifndef IR_ASTORE_DONE
#define IR_ASTORE_DONE(a, v, o) ((void)0)
#endif
#ifndef IR_FENCE
#define IR_FENCE(o) ((void)0)
#endif
#ifndef IR_SPURIOUS
#define IR_SPURIOUS(weak) 0
#endif

#ifdef IR_PAGED
/* paged memory: the address space is cut into small pages, each its own C array, selected by a generated decision tree;
   a constant address folds to one array element, a symbolic address costs one small-array access per page */
#ifdef IR_CHECK_OBJECTS
void ir_check_access(u64 a, u64 n);
#define IR_CHK(a, n) ir_check_access(a, n)
#else
#define IR_CHK(a, n) ((void)0)
#endif
#define IR_RANGE(a) IR_ASSERT((a) >= IR_MEM_BASE && (a) < IR_MEM_END, "memory access outside the mapped address space (NULL / wild pointer)")
#ifdef IR_BYTEWIN
/* byte window (opt-in, e.g. C20): a small range of memory is mirrored byte by byte, so that a CONCRETE byte stays a constant for cbmc's constant propagation
   even when a symbolic byte lives in the same 64-bit word (otherwise every byte of that word turns symbolic and path-wise exploration forks on all of them).
   Accesses of any width that lie inside the window are composed from / split into its bytes (the word view is then NOT updated: every access to the window goes through it). */
static u64 ir_bytewin_base; static u8 ir_bytewin[IR_BYTEWIN];
#define IR_IN_BYTEWIN(a) (ir_bytewin_base != 0 && (a) >= ir_bytewin_base && (a) < ir_bytewin_base + IR_BYTEWIN)
#define IR_BYTEWIN_NOWIDE(a, n) ((void)0)
static inline u64 ir_bw_ld(u64 a, int n) { u64 v = 0; for (int i = 0; i < n; i++) v |= (u64)ir_bytewin[a - ir_bytewin_base + (u64)i] << (8 * i); return v; }
static inline void ir_bw_st(u64 a, int n, u64 v) { for (int i = 0; i < n; i++) ir_bytewin[a - ir_bytewin_base + (u64)i] = (u8)(v >> (8 * i)); }
#define IR_BW_WHOLE(a, n) (ir_bytewin_base != 0 && (a) >= ir_bytewin_base && (a) + (n) <= ir_bytewin_base + IR_BYTEWIN)
#else
#define IR_BYTEWIN_NOWIDE(a, n) ((void)0)
#endif
static inline u64 IR_LD64(u64 a) {
#ifdef IR_BYTEWIN
  if (IR_BW_WHOLE(a, 8)) { IR_CHK(a, 8); return (u64)ir_bw_ld(a, 8); }
#endif
  IR_ASSERT((a & 7) == 0, "unaligned 8-byte load"); IR_RANGE(a); IR_CHK(a, 8); return ir_ldw(a); }
static inline u32 IR_LD32(u64 a) {
#ifdef IR_BYTEWIN
  if (IR_BW_WHOLE(a, 4)) { IR_CHK(a, 4); return (u32)ir_bw_ld(a, 4); }
#endif
  IR_ASSERT((a & 3) == 0, "unaligned 4-byte load"); IR_RANGE(a); IR_CHK(a, 4); u64 w = ir_ldw(a & ~7ull); return (u32)(w >> ((a & 4) * 8)); }
static inline u16 IR_LD16(u64 a) {
#ifdef IR_BYTEWIN
  if (IR_BW_WHOLE(a, 2)) { IR_CHK(a, 2); return (u16)ir_bw_ld(a, 2); }
#endif
  IR_ASSERT((a & 1) == 0, "unaligned 2-byte load"); IR_RANGE(a); IR_CHK(a, 2); u64 w = ir_ldw(a & ~7ull); return (u16)(w >> ((a & 6) * 8)); }
static inline u8  IR_LD8(u64 a)  { IR_RANGE(a); IR_CHK(a, 1);
#ifdef IR_BYTEWIN
  { _Bool inwin = IR_IN_BYTEWIN(a); u8 bw = ir_bytewin[inwin ? a - ir_bytewin_base : 0];     /* no control-flow branch on the address */
    u64 w = ir_ldw(a & ~7ull); return inwin ? bw : (u8)(w >> ((a & 7) * 8)); }
#else
  u64 w = ir_ldw(a & ~7ull); return (u8)(w >> ((a & 7) * 8));
#endif
}
static inline u128 IR_LD128(u64 a) { return (u128)IR_LD64(a) | ((u128)IR_LD64(a + 8) << 64); }
static inline void IR_ST64(u64 a, u64 v) {
#ifdef IR_BYTEWIN
  if (IR_BW_WHOLE(a, 8)) { IR_CHK(a, 8); ir_bw_st(a, 8, (u64)v); return; }
#endif
  IR_ASSERT((a & 7) == 0, "unaligned 8-byte store"); IR_RANGE(a); IR_CHK(a, 8); IR_BYTEWIN_NOWIDE(a, 8); ir_stw(a, v); }
static inline void IR_ST32(u64 a, u32 v) {
#ifdef IR_BYTEWIN
  if (IR_BW_WHOLE(a, 4)) { IR_CHK(a, 4); ir_bw_st(a, 4, (u64)v); return; }
#endif
  IR_ASSERT((a & 3) == 0, "unaligned 4-byte store"); IR_RANGE(a); IR_CHK(a, 4); IR_BYTEWIN_NOWIDE(a, 4); u64 sh = (a & 4) * 8; u64 w = ir_ldw(a & ~7ull); u64 nw = (w & ~(0xffffffffull << sh)) | ((u64)v << sh); ir_stw(a & ~7ull, nw); }
static inline void IR_ST16(u64 a, u16 v) {
#ifdef IR_BYTEWIN
  if (IR_BW_WHOLE(a, 2)) { IR_CHK(a, 2); ir_bw_st(a, 2, (u64)v); return; }
#endif
  IR_ASSERT((a & 1) == 0, "unaligned 2-byte store"); IR_RANGE(a); IR_CHK(a, 2); IR_BYTEWIN_NOWIDE(a, 2); u64 sh = (a & 6) * 8; u64 w = ir_ldw(a & ~7ull); u64 nw = (w & ~(0xffffull << sh)) | ((u64)v << sh); ir_stw(a & ~7ull, nw); }
static inline void IR_ST8(u64 a, u8 v)   { IR_RANGE(a); IR_CHK(a, 1);
#ifdef IR_BYTEWIN
  if (IR_IN_BYTEWIN(a)) ir_bytewin[a - ir_bytewin_base] = v;
#endif
  u64 sh = (a & 7) * 8; u64 w = ir_ldw(a & ~7ull); u64 nw = (w & ~(0xffull << sh)) | ((u64)v << sh); ir_stw(a & ~7ull, nw); }
static inline void IR_ST128(u64 a, u128 v) { IR_ST64(a, (u64)v); IR_ST64(a + 8, (u64)(v >> 64)); }
#else
static inline u64 ir_widx(u64 a) {
  IR_ASSERT(a >= IR_MEM_BASE && a < IR_MEM_END, "memory access outside the mapped address space (NULL / wild pointer)");
  return (a - IR_MEM_BASE) >> 3;
}
#ifdef IR_CHECK_OBJECTS
void ir_check_access(u64 a, u64 n);
#define IR_CHK(a, n) ir_check_access(a, n)
#else
#define IR_CHK(a, n) ((void)0)
#endif
static inline u64 IR_LD64(u64 a) { IR_ASSERT((a & 7) == 0, "unaligned 8-byte load"); IR_CHK(a, 8); u64 w = IR_MEM[ir_widx(a)]; return w; }
static inline u32 IR_LD32(u64 a) { IR_ASSERT((a & 3) == 0, "unaligned 4-byte load"); IR_CHK(a, 4); u64 w = IR_MEM[ir_widx(a)]; return (u32)(w >> ((a & 4) * 8)); }
static inline u16 IR_LD16(u64 a) { IR_ASSERT((a & 1) == 0, "unaligned 2-byte load"); IR_CHK(a, 2); u64 w = IR_MEM[ir_widx(a)]; return (u16)(w >> ((a & 6) * 8)); }
static inline u8  IR_LD8(u64 a)  { IR_CHK(a, 1); u64 w = IR_MEM[ir_widx(a)]; return (u8)(w >> ((a & 7) * 8)); }
static inline u128 IR_LD128(u64 a) { return (u128)IR_LD64(a) | ((u128)IR_LD64(a + 8) << 64); }
static inline void IR_ST64(u64 a, u64 v) { IR_ASSERT((a & 7) == 0, "unaligned 8-byte store"); IR_CHK(a, 8); IR_MEM[ir_widx(a)] = v; }
static inline void IR_ST32(u64 a, u32 v) { IR_ASSERT((a & 3) == 0, "unaligned 4-byte store"); IR_CHK(a, 4); u64 i = ir_widx(a), sh = (a & 4) * 8; u64 w = IR_MEM[i]; u64 nw = (w & ~(0xffffffffull << sh)) | ((u64)v << sh); IR_MEM[i] = nw; }
static inline void IR_ST16(u64 a, u16 v) { IR_ASSERT((a & 1) == 0, "unaligned 2-byte store"); IR_CHK(a, 2); u64 i = ir_widx(a), sh = (a & 6) * 8; u64 w = IR_MEM[i]; u64 nw = (w & ~(0xffffull << sh)) | ((u64)v << sh); IR_MEM[i] = nw; }
static inline void IR_ST8(u64 a, u8 v)   { IR_CHK(a, 1); u64 i = ir_widx(a), sh = (a & 7) * 8; u64 w = IR_MEM[i]; u64 nw = (w & ~(0xffull << sh)) | ((u64)v << sh); IR_MEM[i] = nw; }
static inline void IR_ST128(u64 a, u128 v) { IR_ST64(a, (u64)v); IR_ST64(a + 8, (u64)(v >> 64)); }
#endif
static inline void ir_memset(u64 d, u8 c, u64 n) {
  if (((d | n) & 7) == 0) { u64 w = 0x0101010101010101ull * c; for (u64 i = 0; i < n; i += 8) IR_ST64(d + i, w); }
  else for (u64 i = 0; i < n; i++) IR_ST8(d + i, c); }
static inline void ir_memmove(u64 d, u64 s, u64 n) {
  if (((d | s | n) & 7) == 0 && (d <= s || d >= s + n)) { for (u64 i = 0; i < n; i += 8) IR_ST64(d + i, IR_LD64(s + i)); }
  else if (d <= s) for (u64 i = 0; i < n; i++) IR_ST8(d + i, IR_LD8(s + i));
  else for (u64 i = n; i > 0; i--) IR_ST8(d + i - 1, IR_LD8(s + i - 1)); }
/* both operands 8-byte aligned (known from the IR): whole words first, then the tail */
static inline void ir_memmove_a8(u64 d, u64 s, u64 n) {
  u64 w = n & ~7ull;
  if (d <= s || d >= s + n) { for (u64 i = 0; i < w; i += 8) IR_ST64(d + i, IR_LD64(s + i)); for (u64 i = w; i < n; i++) IR_ST8(d + i, IR_LD8(s + i)); }
  else { for (u64 i = n; i > w; i--) IR_ST8(d + i - 1, IR_LD8(s + i - 1)); for (u64 i = w; i > 0; i -= 8) IR_ST64(d + i - 8, IR_LD64(s + i - 8)); } }
u64 ir_dyn_alloca(u64 n);
#define IR_NOGLOBAL 8ull   /* address of a global the harness excluded: any access faults */
#define IR_CPY64(d, s) IR_ST64(d, IR_LD64(s))
#define IR_CPY32(d, s) IR_ST32(d, IR_LD32(s))
#define IR_CPY16(d, s) IR_ST16(d, IR_LD16(s))
#define IR_CPY8(d, s)  IR_ST8(d, IR_LD8(s))
#define IR_ZERO64(d) IR_ST64(d, 0)
#define IR_ZERO32(d) IR_ST32(d, 0)
#define IR_ZERO16(d) IR_ST16(d, 0)
#define IR_ZERO8(d)  IR_ST8(d, 0)
#define IR_CTLZ64(x) ((u64)((x) ? __builtin_clzll(x) : 64))
#define IR_CTLZ32(x) ((u32)((x) ? __builtin_clz(x) : 32))
#define IR_CTTZ64(x) ((u64)((x) ? __builtin_ctzll(x) : 64))
#define IR_CTTZ32(x) ((u32)((x) ? __builtin_ctz(x) : 32))
#define IR_CTPOP64(x) ((u64)__builtin_popcountll(x))
#define IR_CTPOP32(x) ((u32)__builtin_popcount(x))
#define IR_BSWAP16(x) ((u16)__builtin_bswap16(x))
#define IR_BSWAP32(x) ((u32)__builtin_bswap32(x))
#define IR_BSWAP64(x) ((u64)__builtin_bswap64(x))
#endif
