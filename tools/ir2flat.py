#!/usr/bin/env python3
"""ir2flat: LLVM-14 IR (one linked module) -> C over a flat word-addressed memory (IR_MEM), for CBMC.

Every scalar SSA value is an unsigned C integer (pointers are u64 addresses); globals get fixed addresses;
allocas get fixed per-function frame addresses; function pointers are small integer tokens dispatched by a
generated switch.  Optional --seq makes every function resumable (Lazy-CSeq style) so that a harness-side
round-robin scheduler can interleave threads at visible operations (atomics, volatile accesses, listed stubs).
"""
import re, sys, argparse, collections, fnmatch
from ir2c import Module, T, INT, PTR, P, tokenize, cid, decode_cstr, stdw

class Layout:
    def __init__(s, m): s.m = m; s.cache = {}
    def res(s, t):
        while t.k == 'named': t = s.m.types[t.a]
        return t
    def sa(s, t):
        k = t.key()
        if k in s.cache: return s.cache[k]
        r = s._sa(t); s.cache[k] = r; return r
    def _sa(s, t):
        t = s.res(t)
        if t.k == 'int':
            n = stdw(t.a) // 8 if t.a > 1 else 1
            return (n, min(n, 16))
        if t.k == 'ptr': return (8, 8)
        if t.k == 'float': return (4, 4)
        if t.k == 'double': return (8, 8)
        if t.k == 'x86_fp80': return (16, 16)
        if t.k == 'arr':
            es, ea = s.sa(t.b); return (es * t.a, ea)
        if t.k == 'struct':
            off = 0; al = 1
            for f in t.a:
                fs, fa = s.sa(f)
                if not t.b:
                    off = (off + fa - 1) // fa * fa; al = max(al, fa)
                off += fs
            if not t.b: off = (off + al - 1) // al * al
            return (off, al)
        if t.k == 'opaque': return (0, 1)
        if t.k == 'fn': return (1, 1)
        raise NotImplementedError(t.k)
    def size(s, t): return s.sa(t)[0]
    def foff(s, t, i):
        t = s.res(t); off = 0
        for j, f in enumerate(t.a):
            fs, fa = s.sa(f)
            if not t.b: off = (off + fa - 1) // fa * fa
            if j == i: return off
            off += fs
        raise IndexError

def isagg(t): return t.k in ('struct', 'arr')

class Flat:
    in_ginit = False; prune_init = True; nsw = False; heap = 1024; pagewords = 32; extra_fns = {}; select_branch = False
    def __init__(s, mod, stubs, visible_stubs=(), seq=False, nthreads=4, noglobal=()):
        s.noglobal = set(noglobal); s.blocking = set(); s.icall_only = set(); s.frames_info = []; s.frame_init = {}
        s.m = mod; s.L = Layout(mod); s.stubs = set(stubs); s.vis = set(visible_stubs); s.seq = seq; s.nt = nthreads
        s.gaddr = collections.OrderedDict(); s.gnext = 0x10000
        s.faddr = collections.OrderedDict(); s.aggs = {}; s.aggdefs = []
        s.fseen = set(); s.fwork = []; s.gseen = set(); s.gwork = []
        s.tls = collections.OrderedDict(); s.tlsnext = 0
        s.frame_off = 0
    # ---- scalar C type
    def res(s, t): return s.L.res(t)
    def cty(s, t):
        t0 = t; t = s.res(t)
        if t.k == 'int': return '_Bool' if t.a == 1 else 'u%d' % stdw(t.a)
        if t.k == 'ptr': return 'u64'
        if t.k == 'void': return 'void'
        if t.k in ('float', 'double'): return t.k
        if t.k == 'x86_fp80': return 'long double'
        if t.k in ('struct', 'arr'):
            k = t.key()
            if k not in s.aggs:
                n = 'agg%d' % len(s.aggs); s.aggs[k] = n
                if t.k == 'struct': fs = ' '.join('%s f%d;' % (s.cty(f), i) for i, f in enumerate(t.a))
                else: fs = '%s e[%d];' % (s.cty(t.b), max(t.a, 1))
                s.aggdefs.append('typedef struct { %s } %s;' % (fs or 'char _e;', n))
            return s.aggs[k]
        raise NotImplementedError(t.k)
    # ---- addresses
    def ref(s, n):
        if n in s.m.funcs:
            pruned = s.in_ginit and s.prune_init and s.icall_only and not s.icall_ok(n)
            if n not in s.fseen and not pruned: s.fseen.add(n); s.fwork.append(n)
            if n not in s.faddr: s.faddr[n] = 0x100 + 16 * len(s.faddr)
            return 'FN_' + cid(n)
        g = s.m.globs[n]
        if n in s.noglobal: return 'IR_NOGLOBAL'
        if g.defined == 'alias': return s.const(g.alias_ty, g.alias)
        if g.tls:
            if n not in s.tls:
                sz, al = s.L.sa(g.ty); s.tlsnext = (s.tlsnext + al - 1) // al * al; s.tls[n] = s.tlsnext; s.tlsnext += sz
                s.gseen.add(n); s.gwork.append(n)
            return '(IR_TLS_BASE + (u64)ir_cur * IR_TLS_STRIDE + %dull)' % s.tls[n]
        if n not in s.gaddr:
            sz, al = s.L.sa(g.ty); al = max(al, 8)
            s.gnext = (s.gnext + al - 1) // al * al; s.gaddr[n] = s.gnext; s.gnext += max(sz, 1) + 16   # 16-byte red zone
            s.gseen.add(n); s.gwork.append(n)
        return 'G_' + s.gname(n)
    def gname(s, n): return cid(n) if not n.startswith('.') else 'g' + cid(n)
    def icall_ok(s, n): return n in s.icall_only or any(('*' in p) and fnmatch.fnmatchcase(n, p) for p in s.icall_only)
    # ---- constants (scalar) ; aggregates only via init stores
    def const(s, ty, v):
        k = v[0]; rt = s.res(ty) if ty is not None else None
        if k == 'int':
            n = v[1]
            if rt.k == 'int':
                w = rt.a
                if w == 1: return '1' if n & 1 else '0'
                n &= (1 << w) - 1
                if w <= 32: return '%du' % n
                if w <= 64: return '%dull' % n
                return '(((u128)%dull << 64) | %dull)' % (n >> 64, n & ((1 << 64) - 1))
            return '%dull' % (n & ((1 << 64) - 1))
        if k == 'true': return '1'
        if k == 'false': return '0'
        if k == 'null': return '0ull'
        if k in ('undef', 'poison', 'zeroinitializer'):
            if rt is not None and isagg(rt): return '(%s){}' % s.cty(rt)
            return '0'
        if k == 'glob': return s.ref(v[1])
        if k == 'cast':
            _, op, t1, x, t2 = v
            return '((%s)%s)' % (s.cty(t2), s.const(t1, x))
        if k == 'gep':
            _, bt, pt, base, idx = v
            return s.gep(bt, s.const(pt, base), idx, s.const)
        if k == 'binop':
            _, op, t, a, b = v; return s.binop(op, t, s.const(t, a), s.const(t, b))
        if k == 'icmp':
            _, pred, t, a, b = v; return s.icmp(pred, t, s.const(t, a), s.const(t, b))
        if k == 'select':
            _, c, t, a, b = v; return '(%s ? %s : %s)' % (s.const(INT(1), c), s.const(t, a), s.const(t, b))
        if k == 'flt': return v[1]
        raise NotImplementedError('const ' + k)
    def gep(s, bt, base, idx, valfn):
        terms = [base]; off = 0; t = bt
        def add(it, iv, scale):
            nonlocal off
            if iv[0] == 'int': off += iv[1] * scale
            elif scale: terms.append('((u64)%s * %dull)' % (s.sx(it, valfn(it, iv)), scale))
        add(idx[0][0], idx[0][1], s.L.size(bt))
        for it, iv in idx[1:]:
            rt = s.res(t)
            if rt.k == 'struct': off += s.L.foff(rt, iv[1]); t = rt.a[iv[1]]
            else: add(it, iv, s.L.size(rt.b)); t = rt.b
        if off: terms.append('%dull' % (off & ((1 << 64) - 1)))
        return '(' + ' + '.join(terms) + ')' if len(terms) > 1 else terms[0]
    def gep_type(s, bt, idx):
        t = bt
        for it, iv in idx[1:]:
            rt = s.res(t); t = rt.a[iv[1]] if rt.k == 'struct' else rt.b
        return t
    def sx(s, t, e):
        w = s.res(t).a
        if w == 64: return '(s64)%s' % e
        return '(s64)%s' % s.sc(t, e)
    def sc(s, t, e):
        t = s.res(t)
        w = t.a if t.k == 'int' else 64
        if w in (8, 16, 32, 64, 128): return '((s%d)%s)' % (w, e)
        W = stdw(w); return '((s%d)((s%d)((u%d)%s << %d) >> %d))' % (W, W, W, e, W - w, W - w)
    def mask(s, t, e):
        t = s.res(t)
        if t.k == 'int' and t.a not in (1, 8, 16, 32, 64, 128): return '((%s)(%s & (((u%d)1 << %d) - 1)))' % (s.cty(t), e, stdw(t.a), t.a)
        return e
    def binop(s, op, t, a, b):
        ct = s.cty(t); rt = s.res(t)
        if rt.k == 'int' and rt.a == 1:
            o = {'add': '^', 'sub': '^', 'mul': '&', 'and': '&', 'or': '|', 'xor': '^'}.get(op)
            if o: return '((_Bool)(%s %s %s))' % (a, o, b)
        o = {'add': '+', 'sub': '-', 'mul': '*', 'and': '&', 'or': '|', 'xor': '^', 'shl': '<<', 'lshr': '>>', 'udiv': '/', 'urem': '%'}.get(op)
        if o: return s.mask(t, '((%s)((%s)%s %s (%s)%s))' % (ct, ct, a, o, ct, b))
        if op == 'ashr': return s.mask(t, '((%s)(%s >> %s))' % (ct, s.sc(t, a), b))
        if op == 'sdiv': return s.mask(t, '((%s)(%s / %s))' % (ct, s.sc(t, a), s.sc(t, b)))
        if op == 'srem': return s.mask(t, '((%s)(%s %% %s))' % (ct, s.sc(t, a), s.sc(t, b)))
        raise NotImplementedError(op)
    def icmp(s, pred, t, a, b):
        o = {'eq': '==', 'ne': '!=', 'ugt': '>', 'uge': '>=', 'ult': '<', 'ule': '<=', 'sgt': '>', 'sge': '>=', 'slt': '<', 'sle': '<='}[pred]
        if pred[0] == 's': return '(%s %s %s)' % (s.sc(t, a), o, s.sc(t, b))
        ct = s.cty(t); return '((%s)%s %s (%s)%s)' % (ct, a, o, ct, b)
    # ---- memory access of a typed value
    def load(s, t, addr, vol=''):
        rt = s.res(t)
        if rt.k == 'struct':
            return '(%s){ %s }' % (s.cty(rt), ', '.join(s.load(f, '(%s + %dull)' % (addr, s.L.foff(rt, i))) for i, f in enumerate(rt.a)))
        if rt.k == 'arr':
            es = s.L.size(rt.b); return '(%s){ { %s } }' % (s.cty(rt), ', '.join(s.load(rt.b, '(%s + %dull)' % (addr, i * es)) for i in range(rt.a)))
        if rt.k == 'int' and rt.a == 1: return '((_Bool)(IR_LD8(%s) & 1))' % addr
        n = s.L.size(rt) * 8
        if rt.k == 'int' and rt.a == 24: return '((u32)IR_LD16(%s) | ((u32)IR_LD8(%s + 2ull) << 16))' % (addr, addr)
        return 'IR_LD%d(%s)' % (n, addr)
    def store(s, t, addr, val):
        rt = s.res(t)
        if rt.k == 'struct':
            return ' '.join(s.store(f, '(%s + %dull)' % (addr, s.L.foff(rt, i)), '(%s).f%d' % (val, i)) for i, f in enumerate(rt.a))
        if rt.k == 'arr':
            es = s.L.size(rt.b); return ' '.join(s.store(rt.b, '(%s + %dull)' % (addr, i * es), '(%s).e[%d]' % (val, i)) for i in range(rt.a))
        if rt.k == 'int' and rt.a == 24: return 'IR_ST16(%s, (u16)(%s)); IR_ST8(%s + 2ull, (u8)((%s) >> 16));' % (addr, val, addr, val)
        n = s.L.size(rt) * 8
        return 'IR_ST%d(%s, %s);' % (n, addr, val)
    # ---- global initialisers -> list of constant stores
    def ginit(s, ty, v, addr, out):
        rt = s.res(ty); k = v[0]
        if k in ('zeroinitializer', 'undef', 'poison'): return
        if k == 'agg':
            if rt.k == 'struct':
                for i, (ft, fv) in enumerate(v[1]): s.ginit(ft, fv, addr + s.L.foff(rt, i), out)
            else:
                es = s.L.size(rt.b)
                for i, (ft, fv) in enumerate(v[1]): s.ginit(ft, fv, addr + i * es, out)
            return
        if k == 'cstr':
            for i, b in enumerate(decode_cstr(v[1])):
                if b: out.append('IR_ST8(%dull, %d);' % (addr + i, b))
            return
        c = s.const(ty, v)
        if c in ('0', '0u', '0ull'): return
        out.append(s.store(ty, '%dull' % addr, c))
    def stack_bytes(s):
        # per-thread stack area: the sum of all frames bounds every non-recursive call chain; capped (an overflow is an assertion failure, never silent)
        return min(s.frame_off, s.stack_cap) + (0 if s.seq else 1024)   # seq mode: static frames, no recursion slack (fewer pages = cheaper symbolic addresses)
    stack_cap = 32768
    def paged_memory(s):
        a16 = lambda x: (x + 15) & ~15
        tls_base = a16(s.gnext); tls_stride = a16(s.tlsnext + 16)
        stack_base = tls_base + s.nt * tls_stride; stack_stride = a16(s.stack_bytes() + 16)
        end = stack_base + s.nt * stack_stride + s.heap
        pw = s.pagewords; pb = pw * 8
        npages = (end - 0x10000 + pb - 1) // pb
        out = ['#define IR_PAGED 1', 'typedef unsigned long long ir_u64;'] + ['static ir_u64 IR_PG%d[%d];' % (i, pw) for i in range(npages)]
        def tree(lo, hi, leaf):
            if hi - lo == 1: return leaf(lo)
            mid = (lo + hi) // 2
            return 'if (p < %d) { %s } else { %s }' % (mid, tree(lo, mid, leaf), tree(mid, hi, leaf))
        out.append('#ifndef IR_BRANCHFREE_MEM')
        out.append('static inline ir_u64 ir_ldw(ir_u64 a) { ir_u64 p = (a - 0x10000ull) / %dull; ir_u64 w = (a / 8ull) %% %dull; %s }' % (pb, pw, tree(0, npages, lambda i: 'return IR_PG%d[w];' % i)))
        out.append('static inline void ir_stw(ir_u64 a, ir_u64 v) { ir_u64 p = (a - 0x10000ull) / %dull; ir_u64 w = (a / 8ull) %% %dull; %s }' % (pb, pw, tree(0, npages, lambda i: 'IR_PG%d[w] = v; return;' % i)))
        out.append('#else  /* path-wise exploration: page selection without control-flow branches (a symbolic address must not fork one path per page) */')
        out.append('static inline ir_u64 ir_ldw(ir_u64 a) { ir_u64 p = (a - 0x10000ull) / %dull; ir_u64 w = (a / 8ull) %% %dull; ir_u64 v = 0; %s return v; }' % (pb, pw, ' '.join('v = (p == %d) ? IR_PG%d[w] : v;' % (i, i) for i in range(npages))))
        out.append('static inline void ir_stw(ir_u64 a, ir_u64 v) { ir_u64 p = (a - 0x10000ull) / %dull; ir_u64 w = (a / 8ull) %% %dull; %s }' % (pb, pw, ' '.join('IR_PG%d[w] = (p == %d) ? v : IR_PG%d[w];' % (i, i, i) for i in range(npages))))
        out.append('#endif')
        out.append('#define IR_MEM_END_PAGED %dull' % (0x10000 + npages * pb))
        return out
    # ---- driver
    def translate(s, entries):
        for e in entries: s.ref(e)
        bodies = []; inits = []
        while s.fwork or s.gwork:
            while s.fwork:
                n = s.fwork.pop(); f = s.m.funcs[n]
                if f.defined and n not in s.stubs and not n.startswith('llvm.'): bodies.append(s.func(f))
            while s.gwork:
                n = s.gwork.pop(); g = s.m.globs[n]
                if g.defined is True and not g.tls:
                    s.in_ginit = True
                    try: s.ginit(g.ty, g.init, s.gaddr[n], inits)
                    finally: s.in_ginit = False
        ext = sorted(n for n in s.fseen if not (s.m.funcs[n].defined and n not in s.stubs) and not n.startswith('llvm.'))
        ren = ['#ifdef NATIVE_REPLAY  /* externals keep their names under cbmc; natively they must not collide with libc */'] + ['#define %s irn_%s' % (cid(n), cid(n)) for n in ext if not n.startswith('_dispatch') and not n.startswith('_os_')] + ['#endif']
        hdr = ren + ['#define IR_GLOBALS_END %dull' % s.gnext, '#define IR_TLS_SIZE %dull' % s.tlsnext, '#define IR_FRAMES_SIZE %dull' % s.stack_bytes(),
               '#define IR_NT %d' % s.nt, '#define IR_HEAP_SIZE %dull' % s.heap] + s.paged_memory() + ['#include "ir2flat_prelude.h"']
        hdr += ['#define G_%s %dull' % (s.gname(n), a) for n, a in s.gaddr.items()]
        hdr += ['#define GSZ_%s %dull' % (s.gname(n), s.L.size(s.m.globs[n].ty)) for n in s.gaddr]
        hdr += ['#define TLS_%s(t) (IR_TLS_BASE + (u64)(t) * IR_TLS_STRIDE + %dull)' % (s.gname(n), a) for n, a in s.tls.items()]
        hdr += ['#define FN_%s %dull' % (cid(n), a) for n, a in s.faddr.items()]
        for k, (fn, (xrt, xats)) in enumerate(s.extra_fns.items()):
            hdr.append('#define FN_%s %dull   /* harness-defined function reachable through indirect calls */' % (fn, 0xF000 + 16 * k))
            hdr.append('%s %s(%s);' % (xrt, fn, ', '.join(xats) or 'void'))
        hdr += s.aggdefs
        protos = [s.proto(s.m.funcs[n]) + ';' for n in sorted(s.fseen) if not n.startswith('llvm.')]
        inits = ['ir_sp[%d] = IR_STACK_BASE + %dull * IR_STACK_STRIDE;' % (t, t) for t in range(s.nt)] + inits
        init = 'void ir_init_globals(void) {\n  ' + '\n  '.join(inits) + '\n}\n'
        from ir2c import T as _T
        hdr.append('#define IR_CALL_V_U64 %s   /* call a translated function of type void(void*) through its token (for callout stubs) */' % s.dispatcher(_T('void'), [PTR(INT(8))]))
        hdr.append('#define IR_CALL_APPLIER5 %s   /* call a translated dispatch_data applier (block invoke) through its token */' % s.dispatcher(INT(1), [PTR(INT(8)), PTR(INT(8)), INT(64), PTR(INT(8)), INT(64)]))
        disp = s.dispatchers()
        if s.seq:
            lines = ['#ifdef IR_DUMP_FRAMES', 'void ir_dump_frames(void) { int printf(const char *, ...);']
            for fn, fields in s.frames_info:
                for k, ct in fields:
                    lines.append('  for (int t = 0; t < IR_NT; t++) if (fr_%s[t].%s) printf("FRAME %s %%d %s %%llu\\n", t, (unsigned long long)fr_%s[t].%s);' % (fn, k, fn, k, fn, k))
            lines += ['}', '#endif']
            disp.append('\n'.join(lines))
        undef = []
        for n in ext:
            if n in s.stubs: continue
            f = s.m.funcs[n]; rk = s.res(f.ret).k
            ret = '' if rk == 'void' else (' return (%s){};' % s.cty(f.ret) if rk in ('struct', 'arr') else ' return 0;')
            undef.append('%s { IR_ASSERT(0, "call to external function %s which the harness does not model");%s }' % (s.proto(f), n, ret))
        return '\n'.join(hdr + protos + s.disp_protos + [init] + bodies + disp + undef) + '\n'
    def proto(s, f):
        ps = ['%s %s' % (s.cty(t), s.ln(n)) for t, n in f.params]
        args = ', '.join(ps) if ps else ('void' if not f.va else '')
        if f.va: args = (args + ', ...') if ps else '...'
        return '%s %s(%s)' % (s.cty(f.ret), cid(f.name), args)
    def ln0(s, n): return 'r' + cid(n) if n[0].isdigit() or n[0] == '.' else 'v_' + cid(n)
    def ln(s, n): return ('F.' if s.seq and s.infunc else '') + s.ln0(n)
    infunc = False
    def yieldpt(s, cond='0', blockinfo=''):
        """seq mode: a resumable yield point; returns C text placed before a visible operation"""
        if not s.seq: return 'IR_VISIBLE(); '
        s.ny += 1; k = s.ny
        return 'Y%d: if (ir_budget == 0 || (%s)) { %sF.pc = %d; ir_yielded = 1; return%s; } ir_budget--; IR_STEP(); ' % (k, cond, blockinfo, k, s.dummy)
    def callwrap(s, calltext, resumable):
        if not (s.seq and resumable): return calltext
        s.ny += 1; k = s.ny
        return 'F.pc = %d; Y%d: %s if (ir_yielded) return%s;' % (k, k, calltext, s.dummy)
    # indirect call dispatch: one dispatcher per signature
    disp_sigs = None; disp_protos = []
    def sig(s, rty, argtys): return (s.cty(rty), tuple(s.cty(t) for t in argtys))
    def dispatcher(s, rty, argtys):
        if s.disp_sigs is None: s.disp_sigs = collections.OrderedDict(); s.disp_protos = []
        k = s.sig(rty, argtys)
        if k not in s.disp_sigs:
            n = 'ir_icall%d' % len(s.disp_sigs); s.disp_sigs[k] = n
            s.disp_protos.append('%s %s(u64 fp%s);' % (k[0], n, ''.join(', %s a%d' % (t, i) for i, t in enumerate(k[1]))))
        return s.disp_sigs[k]
    def dispatchers(s):
        out = []
        for (rt, ats), n in (s.disp_sigs or {}).items():
            cases = []
            for fn, addr in s.faddr.items():
                f = s.m.funcs[fn]
                if f.va or fn.startswith('llvm.'): continue
                if s.icall_only and not s.icall_ok(fn): continue
                if s.sig(f.ret, [t for t, _ in f.params]) != (rt, ats): continue
                call = '%s(%s)' % (cid(fn), ', '.join('a%d' % i for i in range(len(ats))))
                cases.append('    case FN_%s: %s' % (cid(fn), ('%s; return;' % call) if rt == 'void' else 'return %s;' % call))
            for fn, (xrt, xats) in s.extra_fns.items():
                if (xrt, tuple(xats)) != (rt, ats): continue
                call = '%s(%s)' % (fn, ', '.join('a%d' % i for i in range(len(ats))))
                cases.append('    case FN_%s: %s' % (fn, ('%s; return;' % call) if rt == 'void' else 'return %s;' % call))
            out.append('%s %s(u64 fp%s) {\n  switch (fp) {\n%s\n    default: IR_BAD_ICALL(fp); %s\n  }\n}\n' % (
                rt, n, ''.join(', %s a%d' % (t, i) for i, t in enumerate(ats)), '\n'.join(cases), 'return;' if rt == 'void' else 'return (%s){0};' % rt if rt.startswith('agg') else 'return 0;'))
        return out
    # ---- functions
    def func(s, f):
        from ir2c import Emitter
        pe = Emitter(s.m)           # reuse instruction parser
        s.vt = {}; decls = []; body = []
        for t, n in f.params: s.vt[n] = t
        insts = {bl: [pe.parse_inst(l) for l in lines] for bl, lines in f.blocks.items()}
        for bl in insts:
            for ins in insts[bl]:
                if ins.get('res') is not None: s.vt[ins['res']] = ins['rty']
        phis = {bl: [i for i in insts[bl] if i['op'] == 'phi'] for bl in insts}
        L = lambda b: 'L_' + cid(b)
        s.infunc = True; s.ny = 0
        rk = s.res(f.ret).k
        s.dummy = '' if rk == 'void' else (' (%s){}' % s.cty(f.ret) if rk in ('struct', 'arr') else ' 0')
        def edge(frm, to):
            ps = phis.get(to, [])
            if not ps: return 'goto %s;' % L(to)
            tmp = []; asg = []
            for p in ps:
                for (v, b) in p['inc']:
                    if b == frm:
                        if any(x.startswith('%s t_%s =' % (s.cty(p['rty']), (s.ln0 if hasattr(s, 'ln0') else s.ln)(p['res']))) for x in tmp): continue
                        tmp.append('%s t_%s = %s;' % (s.cty(p['rty']), s.ln0(p['res']), s.val(p['rty'], v)))
                        asg.append('%s = t_%s;' % (s.ln(p['res']), s.ln0(p['res'])))
            return '{ ' + ' '.join(tmp + asg) + ' goto %s; }' % L(to)
        s.cur_frame = 0; s.curf = f
        for bl in insts:
            body.append('%s: ;' % L(bl))
            for ins in insts[bl]:
                if ins['op'] == 'phi': continue
                txt = s.emit(ins, bl, edge)
                if txt.startswith('IR_VISIBLE(); '): txt += ' IR_VISIBLE_END();'
                body.append('  ' + txt)
        s.infunc = False
        for n, t in s.vt.items():
            if s.res(t).k == 'void': continue
            if not s.seq and any(n == pn for _, pn in f.params): continue
            decls.append('  %s %s;' % (s.cty(t), s.ln0(n)))
        fsize = (s.cur_frame + 15) // 16 * 16
        fbase = s.frame_off; s.frame_off += fsize
        if not s.seq:
            # frames are allocated per activation from a per-thread stack pointer (recursion-safe); on straight-line paths cbmc folds the addresses to constants
            if fsize:
                fpline = '  const u64 ir_fp = IR_SP; IR_SP = ir_fp + %dull; IR_ASSERT(IR_SP <= IR_STACK_BASE + ((u64)ir_cur + 1ull) * IR_STACK_STRIDE, "model stack overflow (recursion deeper than the harness provides for)");' % fsize
                body = [b.replace('/*IR_EPILOGUE*/', 'IR_SP = ir_fp; ') for b in body]
            else:
                fpline = ''; body = [b.replace('/*IR_EPILOGUE*/', '') for b in body]
            return '%s {\n%s\n%s\n}\n' % (s.proto(f), fpline, '\n'.join(decls + body))
        fpline = '  const u64 ir_fp = IR_STACK_BASE + (u64)ir_cur * IR_STACK_STRIDE + %dull;' % fbase
        fn = cid(f.name)
        ps = ['%s a_%s' % (s.cty(t), s.ln0(n)) for t, n in f.params]
        args = ', '.join(ps) if ps else 'void'
        head = '%s %s(%s)' % (s.cty(f.ret), fn, args)
        fields = [(s.ln0(n), s.cty(t)) for n, t in s.vt.items() if s.res(t).k not in ('void', 'struct', 'arr')]
        s.frames_info.append((fn, fields))
        init = ''
        prof = s.frame_init.get(fn)
        if prof:
            per = []
            for t in sorted(prof):
                known = dict(fields)
                per.append('[%d] = { %s }' % (t, ', '.join('.%s = %s' % (k, v) for k, v in prof[t].items() if k in known)))
            init = ' = { ' + ', '.join(per) + ' }'
        frame = 'static struct { int pc; _Bool active;%s } fr_%s[IR_NT]%s;' % (''.join(' ' + d.strip() for d in decls), fn, init)
        entry = ['  %s' % ' '.join('F.%s = a_%s;' % (s.ln0(n), s.ln0(n)) for _, n in f.params),
                 '  if (F.pc == 0) { IR_ASSUME(!F.active); F.active = 1; }']
        if s.ny: entry.append('  switch (F.pc) { %s default: break; }' % ' '.join('case %d: goto Y%d;' % (k, k) for k in range(1, s.ny + 1)))
        return '%s\n#define F fr_%s[ir_cur]\n%s {\n%s\n%s\n}\n#undef F\n' % (frame, fn, head, fpline, '\n'.join(entry + body))
    def val(s, t, v):
        if v[0] == 'loc': return s.ln(v[1])
        return s.const(t, v)
    def emit(s, d, bl, edge):
        op = d['op']; r = s.ln(d['res']) if d['res'] is not None else None; V = s.val
        if op in ('add', 'sub', 'mul', 'and', 'or', 'xor', 'shl', 'lshr', 'ashr', 'udiv', 'sdiv', 'urem', 'srem'):
            pre = ''
            if s.nsw and op in ('add', 'sub', 'mul') and 'nsw' in d.get('flags', ()) and s.res(d['t']).k == 'int' and s.res(d['t']).a in (32, 64):
                w = s.res(d['t']).a
                pre = '{ s%d ov_t; IR_ASSERT(!__builtin_%s_overflow((s%d)%s, (s%d)%s, &ov_t), "signed overflow in an operation the compiler treats as non-wrapping (nsw %s; undefined behaviour in the real build)"); } ' % (w, op, w, V(d['t'], d['a']), w, V(d['t'], d['b']), op)
            return pre + '%s = %s;' % (r, s.binop(op, d['t'], V(d['t'], d['a']), V(d['t'], d['b'])))
        if op == 'icmp': return '%s = %s;' % (r, s.icmp(d['pred'], d['t'], V(d['t'], d['a']), V(d['t'], d['b'])))
        if op in ('bitcast', 'addrspacecast', 'inttoptr', 'ptrtoint', 'zext', 'uitofp', 'fptoui', 'fpext', 'fptrunc'):
            return '%s = %s;' % (r, s.mask(d['rty'], '(%s)%s' % (s.cty(d['rty']), V(d['t'], d['a']))))
        if op == 'trunc':
            a = V(d['t'], d['a'])
            if s.res(d['rty']).a == 1: return '%s = (_Bool)(%s & 1);' % (r, a)
            return '%s = %s;' % (r, s.mask(d['rty'], '(%s)%s' % (s.cty(d['rty']), a)))
        if op == 'sext':
            a = V(d['t'], d['a'])
            if s.res(d['t']).a == 1: return '%s = (%s)(%s ? -1 : 0);' % (r, s.cty(d['rty']), a)
            return '%s = %s;' % (r, s.mask(d['rty'], '(%s)(s%d)%s' % (s.cty(d['rty']), stdw(s.res(d['rty']).a), s.sc(d['t'], a))))
        if op == 'sitofp': return '%s = (%s)%s;' % (r, s.cty(d['rty']), s.sc(d['t'], V(d['t'], d['a'])))
        if op == 'fptosi': return '%s = (%s)(s%d)%s;' % (r, s.cty(d['rty']), s.res(d['rty']).a, V(d['t'], d['a']))
        if op == 'load':
            a = V(d['pt'], d['a'])
            if d['atomic']: return s.yieldpt() + 'IR_ALOAD_PRE(%s, %d); %s = %s; IR_ALOAD_DONE(%s, %s, %d); /* atomic %s */' % (a, {'monotonic': 0, 'acquire': 2, 'seq_cst': 5, 'unordered': 0}[d['order']], r, s.load(d['t'], a), a, r, {'monotonic': 0, 'acquire': 2, 'seq_cst': 5, 'unordered': 0}[d['order']], d['order'])
            return '%s = %s;' % (r, s.load(d['t'], a))
        if op == 'store':
            a = V(d['pt'], d['a']); v = V(d['t'], d['v'])
            if d['atomic']: return s.yieldpt() + 'IR_ASTORE_PRE(%s, %d); %s IR_ASTORE_DONE(%s, %s, %d); /* atomic %s */' % (a, {'monotonic': 0, 'release': 3, 'seq_cst': 5, 'unordered': 0}[d['order']], s.store(d['t'], a, v), a, v, {'monotonic': 0, 'release': 3, 'seq_cst': 5, 'unordered': 0}[d['order']], d['order'])
            return s.store(d['t'], a, v)
        if op == 'getelementptr': return '%s = %s;' % (r, s.gep(d['bt'], V(d['pt'], d['base']), d['idx'], V))
        if op == 'alloca':
            sz, al = s.L.sa(d['t'])
            if d['n'] is not None and d['n'][1] != ('int', 1):
                if d['n'][1][0] != 'int': return '%s = ir_dyn_alloca(%dull * (u64)%s);' % (r, sz, V(d['n'][0], d['n'][1]))
                sz *= d['n'][1][1]
            al = max(al, 8); s.cur_frame = (s.cur_frame + al - 1) // al * al; off = s.cur_frame; s.cur_frame += max(sz, 8)
            return '%s = ir_fp + %dull;' % (r, off)
        if op == 'select':
            if s.select_branch and s.res(d['t']).k == 'ptr':   # path-wise exploration: a select between two POINTERS becomes control flow, so that the pointer is concrete on each path (LLVM's simplifycfg turns small if-bodies into selects)
                return 'if (%s) %s = %s; else %s = %s;' % (V(INT(1), d['c']), r, V(d['t'], d['a']), r, V(d['t'], d['b']))
            return '%s = %s ? %s : %s;' % (r, V(INT(1), d['c']), V(d['t'], d['a']), V(d['t'], d['b']))
        if op == 'freeze': return '%s = %s;' % (r, V(d['t'], d['a']))
        if op == 'br':
            if 'dest' in d: return edge(bl, d['dest'])
            return 'if (%s) %s else %s' % (V(INT(1), d['c']), edge(bl, d['a']), edge(bl, d['b']))
        if op == 'switch':
            cs = ' '.join('case %s: %s' % (s.const(d['t'], cv), edge(bl, lab)) for cv, lab in d['cases'])
            return 'switch (%s) { %s default: %s }' % (V(d['t'], d['v']), cs, edge(bl, d['dflt']))
        if op == 'ret':
            pre = '{ F.pc = 0; F.active = 0; ' if s.seq else '{ /*IR_EPILOGUE*/'; post = ' }'
            return pre + ('return;' if d['v'] is None else 'return %s;' % V(d['t'], d['v'])) + post
        if op == 'unreachable': return 'IR_UNREACHABLE();'
        if op == 'atomicrmw':
            a = V(d['pt'], d['a']); v = V(d['t'], d['v']); o = d['rmw']
            expr = {'add': '%s + %s', 'sub': '%s - %s', 'and': '%s & %s', 'or': '%s | %s', 'xor': '%s ^ %s', 'xchg': '(void)%s, %s'}[o] % (r, v)
            if o == 'xchg': expr = v
            ordn = {'monotonic': 0, 'acquire': 2, 'release': 3, 'acq_rel': 4, 'seq_cst': 5}[d['order']]
            return s.yieldpt() + 'IR_RMW_PRE(%s, %d); %s = %s; %s IR_RMW_DONE(%s, %s, %d); /* atomicrmw %s %s */' % (a, ordn, r, s.load(d['t'], a), s.store(d['t'], a, '(%s)(%s)' % (s.cty(d['t']), expr)), a, r, ordn, o, d['order'])
        if op == 'cmpxchg':
            a = V(d['pt'], d['a'])
            om = {'monotonic': 0, 'acquire': 2, 'release': 3, 'acq_rel': 4, 'seq_cst': 5}
            return s.yieldpt() + 'IR_CAS_PRE(%s, %d); %s.f0 = %s; if (%s.f0 == %s && !IR_SPURIOUS(%d)) { %s %s.f1 = 1; IR_CAS_OK(%s, %s.f0, %s, %d); } else { %s.f1 = 0; IR_CAS_FAIL(%s, %s.f0, %d); } /* cmpxchg %s %s */' % (
                a, om[d['so']], r, s.load(d['t'], a), r, V(d['t'], d['e']), 1 if d['weak'] else 0, s.store(d['t'], a, V(d['t'], d['n'])), r, a, r, V(d['t'], d['n']), om[d['so']], r, a, r, om[d['fo']], d['so'], d['fo'])
        if op == 'fence': return 'IR_FENCE(%d); /* fence %s */' % ({'acquire': 2, 'release': 3, 'acq_rel': 4, 'seq_cst': 5}[d['order']], d['order'])
        if op == 'extractvalue':
            e = V(d['t'], d['a']); t = d['t']
            for i in d['idx']:
                rt = s.res(t)
                if rt.k == 'struct': e += '.f%d' % i; t = rt.a[i]
                else: e += '.e[%d]' % i; t = rt.b
            return '%s = %s;' % (r, e)
        if op == 'insertvalue':
            e = r; t = d['t']
            for i in d['idx']:
                rt = s.res(t)
                if rt.k == 'struct': e += '.f%d' % i; t = rt.a[i]
                else: e += '.e[%d]' % i; t = rt.b
            return '%s = %s; %s = %s;' % (r, V(d['t'], d['a']), e, V(d['t2'], d['v']))
        if op == 'call': return s.call(d, r)
        raise NotImplementedError(op)
    DROP = ('llvm.dbg.', 'llvm.lifetime.', 'llvm.assume', 'llvm.prefetch', 'llvm.experimental.noalias', 'llvm.var.annotation', 'llvm.donothing', 'llvm.stackrestore', 'llvm.va_')
    def call(s, d, r):
        c = d['callee']; V = s.val
        args = [V(t, v) for t, v in d['args']]
        asg = '%s = ' % r if (r is not None and s.res(d['rty']).k != 'void') else ''
        if c[0] == 'asm': return '/* asm */;'
        if c[0] == 'cast' and c[1] == 'bitcast' and c[3][0] == 'glob' and c[3][1] in s.m.funcs and not s.m.funcs[c[3][1]].va \
                and len(s.m.funcs[c[3][1]].params) == len(args):
            c = c[3]     # a call through a bitcast of a known function (transparent-union argument types): a direct call
        if c[0] == 'glob':
            n = c[1]
            if n.startswith('llvm.'):
                if n.startswith(s.DROP): return ';'
                if n.startswith('llvm.expect'): return '%s%s;' % (asg, args[0])
                if n.startswith('llvm.trap') or n.startswith('llvm.debugtrap'): return 'IR_TRAP();'
                if n.startswith('llvm.memcpy') or n.startswith('llvm.memmove'):
                    m = re.fullmatch(r'(\d+)ull', args[2])
                    if m and int(m.group(1)) <= 256 and n.startswith('llvm.memcpy'):
                        k = int(m.group(1)); out = []; o = 0
                        for w in (8, 4, 2, 1):
                            while k - o >= w:
                                out.append('IR_CPY%d(%s + %dull, %s + %dull);' % (w * 8, args[0], o, args[1], o)); o += w
                        return ' '.join(out) or ';'
                    al = d.get('aligns') or [1, 1]
                    if min(al[0], al[1]) >= 8: return 'ir_memmove_a8(%s, %s, %s);' % (args[0], args[1], args[2])   # both operands 8-aligned by the IR's own align attributes
                    return 'ir_memmove(%s, %s, %s);' % (args[0], args[1], args[2])
                if n.startswith('llvm.memset'):
                    m = re.fullmatch(r'(\d+)ull', args[2])
                    if m and int(m.group(1)) <= 512 and args[1] in ('0', '0u'):
                        k = int(m.group(1)); out = []; o = 0
                        for w in (8, 4, 2, 1):
                            while k - o >= w:
                                out.append('IR_ZERO%d(%s + %dull);' % (w * 8, args[0], o)); o += w
                        return ' '.join(out) or ';'
                    return 'ir_memset(%s, %s, %s);' % (args[0], args[1], args[2])
                m = re.match(r'llvm\.([us])(add|sub|mul)\.with\.overflow\.i(\d+)', n)
                if m:
                    sg, o, w = m.groups(); ct = ('s' if sg == 's' else 'u') + w
                    return '{ %s ov_t; %s.f1 = __builtin_%s_overflow((%s)%s, (%s)%s, &ov_t); %s.f0 = (u%s)ov_t; }' % (ct, r, o, ct, args[0], ct, args[1], r, w)
                m = re.match(r'llvm\.(ctlz|cttz|ctpop|bswap)\.i(\d+)', n)
                if m: return '%sIR_%s%s(%s);' % (asg, m.group(1).upper(), m.group(2), args[0])
                m = re.match(r'llvm\.(umax|umin|smax|smin)\.i(\d+)', n)
                if m:
                    o, w = m.groups(); cast = ('(s%s)' % w) if o[0] == 's' else ''
                    return '%s(%s%s %s %s%s) ? %s : %s;' % (asg, cast, args[0], '>' if o.endswith('max') else '<', cast, args[1], args[0], args[1])
                if n.startswith('llvm.objectsize'): return '%s(u64)-1;' % asg
                if n.startswith('llvm.is.constant'): return '%s0;' % asg
                if n.startswith(('llvm.stacksave', 'llvm.frameaddress', 'llvm.returnaddress')): return '%s0;' % asg
                raise NotImplementedError('intrinsic ' + n)
            s.ref(n); f = s.m.funcs[n]
            if f.va: args = args[:len(f.params)]   # variadic tails are dropped (logging/formatting only)
            resumable = f.defined and n not in s.stubs
            if n in s.blocking:
                pre = s.yieldpt('!ENABLED_%s(%s)' % (cid(n), ', '.join(args)), 'ir_blocked[ir_cur] = !ENABLED_%s(%s); ' % (cid(n), ', '.join(args)))
            else: pre = s.yieldpt() if n in s.vis else ''
            return pre + s.callwrap('%s%s(%s);' % (asg, cid(n), ', '.join(args)), resumable)
        fty = d['fty'] or T('fn', d['rty'], [t for t, _ in d['args']], False)
        ce = s.ln(c[1]) if c[0] == 'loc' else s.const(PTR(fty), c)
        return s.callwrap('%s%s(%s%s);' % (asg, s.dispatcher(d['rty'], [t for t, _ in d['args']]), ce, ''.join(', ' + a for a in args)), True)

def main():
    ap = argparse.ArgumentParser()
    ap.add_argument('ll'); ap.add_argument('--entry', required=True); ap.add_argument('--stub', default=''); ap.add_argument('--visible', default=''); ap.add_argument('--noglobal', default=''); ap.add_argument('--seq', action='store_true'); ap.add_argument('--blocking', default=''); ap.add_argument('--icall-only', default=''); ap.add_argument('--frame-init', default=''); ap.add_argument('--nt', type=int, default=2); ap.add_argument('--heap', type=int, default=1024); ap.add_argument('--pagewords', type=int, default=32); ap.add_argument('-o', default='-')
    a = ap.parse_args()
    m = Module(open(a.ll).read())
    e = Flat(m, [x for x in a.stub.split(',') if x], [x for x in a.visible.split(',') if x], noglobal=[x for x in a.noglobal.split(',') if x], seq=a.seq)
    e.blocking = set(x for x in a.blocking.split(',') if x); e.icall_only = set(x for x in a.icall_only.split(',') if x)
    e.nt = a.nt; e.heap = a.heap; e.pagewords = a.pagewords
    if a.frame_init:
        for ln in open(a.frame_init):
            p = ln.split()
            if len(p) == 5 and p[0] == 'FRAME':
                e.frame_init.setdefault(p[1], {}).setdefault(int(p[2]), {})[p[3]] = p[4] + 'ull'
    out = e.translate([x for x in a.entry.split(',') if x])
    (sys.stdout if a.o == '-' else open(a.o, 'w')).write(out)
    ext = sorted(n for n in e.fseen if not (m.funcs[n].defined and n not in e.stubs) and not n.startswith('llvm.'))
    sys.stderr.write('ir2flat: %d functions, globals end 0x%x, tls %d B, frames %d B; external/stubbed: %s\n' % (
        len([n for n in e.fseen if m.funcs[n].defined and n not in e.stubs]), e.gnext, e.tlsnext, e.frame_off, ' '.join(ext)))
if __name__ == '__main__': main()
