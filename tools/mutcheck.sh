#!/bin/sh
# usage: tools/mutcheck.sh <patch.diff> <property-id>...   — apply a patch to /repo, run the quick checks, revert
P=$1; shift
git -C /repo apply "$P" || { echo "patch does not apply"; exit 9; }
for id in "$@"; do (cd /verif && ./check $id --tier ${TIER:-quick} 2>/dev/null | grep -E "^(VIOLATION|KNOWN|BROKEN|INCONCLUSIVE|C[0-9]+ )" | cut -c1-260); done
git -C /repo checkout -- .
