#!/bin/sh
# usage: tools/mutcheck.sh <patch.diff | seeded-id> <property-id>... [-- extra ./check args]  — apply a change to a SCRATCH worktree (never /repo), run the checks against it, revert
P=$1; shift; [ -f "$P" ] || P=/verif/seeded/$P/patch.diff
R=${VERIF_REPO:-/tmp/repo_mut2}; export VERIF_REPO=$R VERIF_WORK=$R.work VERIF_EVIDENCE_DIR=$R.evidence; mkdir -p $VERIF_EVIDENCE_DIR
[ -d $R ] || git -C /repo worktree add --detach -f $R HEAD >/dev/null 2>&1
git -C $R checkout -q -- . ; git -C $R checkout -q --detach $(git -C /repo rev-parse HEAD); git -C $R apply "$P" || { echo "patch does not apply"; exit 9; }
ids=""; while [ $# -gt 0 ] && [ "$1" != "--" ]; do ids="$ids $1"; shift; done; [ "$1" = "--" ] && shift
for id in $ids; do (cd /verif && ./check $id --tier ${TIER:-quick} "$@" 2>/dev/null | grep -E "^(VIOLATION|KNOWN|BROKEN|INCONCLUSIVE|C[0-9]+ |  harness=)" | cut -c1-400); done
git -C $R checkout -q -- .
