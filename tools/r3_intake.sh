#!/bin/sh
# usage: r3_intake.sh <Cxx> <a|b> <needs text...>   — confirm a round-3 change in its worktree and save it under seeded/ with the next free index
P=$1; X=$2; shift 2
WT=/tmp/wt_r3_$P; SRC=/tmp/r3/$P/$X
n=1; while [ -d /verif/seeded/${P}_m$n ]; do n=$((n+1)); done
OUT=$(sh /verif/tools/confirm_mutant.sh $WT $SRC 2>&1); echo "$OUT" | tail -3
echo "$OUT" | grep -q "^CONFIRMED" || { echo "NOT CONFIRMED: $P $X"; exit 1; }
python3 /verif/tools/save_mutant.py $P $SRC m$n "$@"
