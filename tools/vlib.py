#!/usr/bin/env python3
"""vlib: driver library of the solver-based checks.

pipeline per check run:   /repo sources --clang-14--> LLVM IR --ir2flat--> flat-memory C --cbmc--> SAT/SMT verdict
Every run re-derives the IR from /repo's *current working tree* (artefacts are cached under /verif/.cache keyed by a
SHA-256 over every source/header file that can influence the IR, so an unchanged tree reuses the identical artefact and
any edit produces a new one).
"""
import os, sys, re, json, time, hashlib, subprocess, shutil, glob, pickle, resource, concurrent.futures as cf

VERIF = os.path.dirname(os.path.dirname(os.path.abspath(__file__)))
REPO = os.environ.get('VERIF_REPO', '/repo')
TOOLS = os.path.join(VERIF, 'tools')
CACHE = os.path.join(VERIF, '.cache')
WORK = os.environ.get('VERIF_WORK') or os.path.join(VERIF, 'work')     # mutation runs use their own work / evidence directories (tools/mutation_matrix.py)
sys.path.insert(0, TOOLS)

DEFS = ['-DDISPATCH_USE_DTRACE=0', '-DHAVE_CONFIG_H', '-D_GNU_SOURCE=1', '-Ddispatch_EXPORTS', '-DNDEBUG']
C_SOURCES = ['allocator.c', 'apply.c', 'benchmark.c', 'data.c', 'init.c', 'introspection.c', 'io.c', 'mach.c', 'object.c', 'once.c',
             'queue.c', 'semaphore.c', 'source.c', 'time.c', 'transform.c', 'voucher.c', 'shims.c', 'event/event.c',
             'event/event_epoll.c', 'event/event_kevent.c', 'event/event_windows.c', 'shims/lock.c', 'shims/yield.c', 'event/workqueue.c']
HASH_DIRS = ['src', 'dispatch', 'os', 'private']

def log(*a):
    print(*a, file=sys.stderr, flush=True)

def cfg_dir():
    """directory holding config/config_ac.h (a product of cmake configure; independent of src/)"""
    d = os.path.join(REPO, '_build')
    if os.path.exists(os.path.join(d, 'config', 'config_ac.h')): return d
    d = os.path.join(CACHE, 'cfg')
    if not os.path.exists(os.path.join(d, 'config', 'config_ac.h')):
        os.makedirs(d, exist_ok=True)
        subprocess.run(['cmake', '-G', 'Ninja', '-S', REPO, '-B', d, '-DCMAKE_C_COMPILER=clang-16', '-DCMAKE_CXX_COMPILER=clang++-16',
                        '-DCMAKE_BUILD_TYPE=RelWithDebInfo', '-DBUILD_TESTING=OFF'], check=True, stdout=subprocess.DEVNULL)
    return d

def includes():
    c = cfg_dir()
    return ['-I' + c, '-I' + REPO, '-I' + REPO + '/src', '-I' + c + '/src', '-I' + REPO + '/private', '-I' + REPO + '/src/BlocksRuntime']

_hash = None
def src_hash():
    global _hash
    if _hash: return _hash
    h = hashlib.sha256()
    files = []
    for d in HASH_DIRS:
        for root, _, fs in os.walk(os.path.join(REPO, d)):
            for f in fs:
                if f.endswith(('.c', '.h', '.cpp', '.def', '.modulemap')): files.append(os.path.join(root, f))
    files.append(os.path.join(cfg_dir(), 'config', 'config_ac.h'))
    for f in sorted(files):
        h.update(f.encode()); h.update(b'\0')
        with open(f, 'rb') as fh: h.update(fh.read())
        h.update(b'\0')
    for t in ('ir2c.py', 'ir2flat.py'):
        pass
    _hash = h.hexdigest()[:20]
    return _hash

def cache_dir():
    d = os.path.join(CACHE, src_hash()); os.makedirs(d, exist_ok=True)
    # keep the cache small: drop other trees' artefacts older than a day
    try:
        for o in os.listdir(CACHE):
            p = os.path.join(CACHE, o)
            if o not in (src_hash(), 'cfg') and os.path.isdir(p) and time.time() - os.path.getmtime(p) > 6 * 3600: shutil.rmtree(p, ignore_errors=True)
    except OSError: pass
    return d

def _emit_one(src, out, extra=()):
    cxx = src.endswith('.cpp')
    cmd = (['clang++-14', '-std=gnu++11', '-fno-rtti'] if cxx else ['clang-14', '-std=gnu11']) + \
          ['-O2', '-Xclang', '-disable-llvm-passes', '-fblocks', '-fno-exceptions', '-fPIC', '-fvisibility=hidden', '-w'] + DEFS + includes() + list(extra) + \
          ['-S', '-emit-llvm', src, '-o', out + '.raw']
    subprocess.run(cmd, check=True)
    subprocess.run(['opt-14', '-S', '-passes=mem2reg,simplifycfg', out + '.raw', '-o', out], check=True)
    os.unlink(out + '.raw')

def build_ir(extra_tus=()):
    """LLVM IR of the whole library (one linked module). extra_tus: [(name, c_source_text)] probe TUs compiled with the real flags."""
    d = cache_dir(); key = 'all' if not extra_tus else 'all_' + hashlib.sha256(repr(extra_tus).encode()).hexdigest()[:10]
    out = os.path.join(d, key + '.ll')
    if os.path.exists(out): return out
    t0 = time.time()
    tmp = os.path.join(d, 'ir_%d' % os.getpid()); os.makedirs(tmp, exist_ok=True)
    jobs = [(os.path.join(REPO, 'src', s), os.path.join(tmp, s.replace('/', '_') + '.ll')) for s in C_SOURCES]
    for n, text in extra_tus:
        p = os.path.join(tmp, n); open(p, 'w').write(text); jobs.append((p, p + '.ll'))
    with cf.ThreadPoolExecutor(16) as ex:
        list(ex.map(lambda j: _emit_one(*j), jobs))
    subprocess.run(['llvm-link-14', '-S'] + [j[1] for j in jobs] + ['-o', out + '.tmp%d' % os.getpid()], check=True)
    os.replace(out + '.tmp%d' % os.getpid(), out)
    shutil.rmtree(tmp, ignore_errors=True)
    log('[ir] built %s in %.1fs' % (out, time.time() - t0))
    return out

import threading
_plock = threading.Lock()
def probes(exprs, headers=('internal.h',)):
    """evaluate constant expressions (offsetof, sizeof, macros) with the real headers and flags: {name: expr} -> {name: int}"""
    with _plock: return _probes(exprs, headers)
def _probes(exprs, headers):
    key = hashlib.sha256(repr(sorted(exprs.items())).encode()).hexdigest()[:12]
    d = cache_dir(); out = os.path.join(d, 'probe_%s.json' % key)
    if os.path.exists(out): return json.load(open(out))
    src = os.path.join(d, 'probe_%s_%d_%d.c' % (key, os.getpid(), threading.get_ident()))
    with open(src, 'w') as f:
        for h in headers: f.write('#include "%s"\n' % h)
        for n, e in exprs.items(): f.write('const unsigned long long VP_%s = (unsigned long long)(%s);\n' % (n, e))
    ll = src + '.ll'
    r = subprocess.run(['clang-14', '-std=gnu11', '-O0', '-fblocks', '-w'] + DEFS + includes() + ['-S', '-emit-llvm', src, '-o', ll], stdout=subprocess.PIPE, stderr=subprocess.STDOUT, text=True)
    if r.returncode != 0: raise RuntimeError('probe TU does not compile: ' + r.stdout[:600])
    vals = {}
    for ln in open(ll):
        m = re.match(r'@VP_(\w+) = .*constant i64 (-?\d+)', ln)
        if m: vals[m.group(1)] = int(m.group(2)) & ((1 << 64) - 1)
    os.unlink(src); os.unlink(ll)
    missing = set(exprs) - set(vals)
    if missing: raise RuntimeError('probe: not constant-folded: %s' % missing)
    json.dump(vals, open(out + '.tmp%d' % os.getpid(), 'w')); os.replace(out + '.tmp%d' % os.getpid(), out)
    return vals

_mods = {}
def load_module(ll):
    if ll in _mods: return _mods[ll]
    from ir2c import Module
    pk = ll + '.pickle'
    if os.path.exists(pk) and os.path.getmtime(pk) >= os.path.getmtime(ll):
        try:
            m = pickle.load(open(pk, 'rb')); _mods[ll] = m; return m
        except Exception: pass
    m = Module(open(ll).read())
    try:
        pickle.dump(m, open(pk + '.tmp%d' % os.getpid(), 'wb')); os.replace(pk + '.tmp%d' % os.getpid(), pk)
    except Exception: pass
    _mods[ll] = m
    return m

def build_reallib():
    """scratch build of the real libdispatch.so from the current tree (for differential validation and replay)"""
    d = os.path.join(cache_dir(), 'real'); so = os.path.join(d, 'libdispatch.so')
    if os.path.exists(so): return d
    t0 = time.time()
    b = os.path.join(cache_dir(), 'realbuild_%d' % os.getpid())
    subprocess.run(['cmake', '-G', 'Ninja', '-S', REPO, '-B', b, '-DCMAKE_C_COMPILER=clang-16', '-DCMAKE_CXX_COMPILER=clang++-16', '-DCMAKE_C_FLAGS=-Wno-error',
                    '-DCMAKE_BUILD_TYPE=RelWithDebInfo', '-DBUILD_TESTING=OFF'], check=True, stdout=subprocess.DEVNULL, stderr=subprocess.DEVNULL)
    r = subprocess.run(['ninja', '-C', b, 'dispatch', 'BlocksRuntime'], stdout=subprocess.PIPE, stderr=subprocess.STDOUT, text=True)
    if r.returncode != 0: raise RuntimeError('real library does not build:\n' + r.stdout[-3000:])
    os.makedirs(d + '.tmp', exist_ok=True)
    for f in glob.glob(b + '/**/*.so', recursive=True): shutil.copy(f, d + '.tmp')
    shutil.rmtree(b, ignore_errors=True)
    if os.path.exists(d): shutil.rmtree(d + '.tmp')
    else: os.replace(d + '.tmp', d)
    log('[real] built %s in %.1fs' % (d, time.time() - t0))
    return d

# ------------------------------------------------------------------------------------------------ translation
class H:
    """one harness: which real functions go under the solver, which are environment stubs, and how cbmc is run"""
    def __init__(s, name, file, entries, stubs=(), noglobal=(), icall_only=(), blocking=(), visible=(), seq=False, nt=2, heap=1024, pagewords=32,
                 defines=(), cbmc=(), mode='all', witness='inline', tiers=('quick', 'thorough'), timeout=600, symbolic=True, note='', nsw=False,
                 unwind=None, unwindset=None, mem_gb=24, extra_tus=(), backend=None, flat=True, expect_fail=(), stack_extra=0, weak_cas=False, prune_init=True, probes=None, witness_any=False, paths=False, harness_fns=None):
        s.__dict__.update(locals()); del s.__dict__['s']

def translate(h, wd):
    from ir2flat import Flat
    ll = build_ir(tuple(h.extra_tus))
    m = load_module(ll)
    e = Flat(m, list(h.stubs), list(h.visible), noglobal=list(h.noglobal), seq=h.seq)
    e.blocking = set(h.blocking); e.icall_only = set(h.icall_only); e.nt = h.nt; e.heap = h.heap; e.pagewords = h.pagewords
    e.nsw = h.nsw; e.prune_init = h.prune_init; e.extra_fns = dict(h.harness_fns or {}); e.select_branch = bool(h.paths)
    out = e.translate(list(h.entries))
    open(os.path.join(wd, 'model.c'), 'w').write(out)
    funcs = sorted(n for n in e.fseen if m.funcs[n].defined and n not in e.stubs and not n.startswith('llvm.'))
    ext = sorted(n for n in e.fseen if not (m.funcs[n].defined and n not in e.stubs) and not n.startswith('llvm.'))
    return funcs, ext

# ------------------------------------------------------------------------------------------------ cbmc
RES_RE = re.compile(r'^\[([^\]]+)\] (?:line (\d+) )?(.*): (SUCCESS|FAILURE|UNKNOWN|ERROR)$')

def _limits(mem_gb):
    def f():
        resource.setrlimit(resource.RLIMIT_AS, (mem_gb << 30, mem_gb << 30))
        os.setsid()
    return f

def run_cmd(cmd, timeout, mem_gb, cwd=None, env=None):
    t0 = time.time()
    p = subprocess.Popen(['bash', '-c', 'ulimit -v %d; exec /usr/bin/time -f MAXRSS_KB=%%M "$@"' % (mem_gb << 20), 'x'] + cmd, stdout=subprocess.PIPE, stderr=subprocess.PIPE,
                         text=True, cwd=cwd, start_new_session=True, env=env)
    try:
        out, err = p.communicate(timeout=timeout); to = False
    except subprocess.TimeoutExpired:
        try: os.killpg(p.pid, 9)
        except OSError: pass
        out, err = p.communicate(); to = True
    m = re.search(r'MAXRSS_KB=(\d+)', err or '')
    return dict(rc=p.returncode, out=out, err=err, timeout=to, wall=time.time() - t0, rss_mb=int(m.group(1)) // 1024 if m else None)

def cbmc_cmd(h, wd, witness_define, trace=True):
    hsrc = os.path.join(VERIF, 'harness', h.pid, h.file)
    cmd = ['cbmc', hsrc, '--function', 'harness', '-I', wd, '-I', TOOLS, '-I', os.path.join(VERIF, 'harness', 'common'), '-I', os.path.join(VERIF, 'harness', h.pid),
           '--no-standard-checks', '--no-built-in-assertions', '--drop-unused-functions', '--slice-formula', '--no-malloc-may-fail']
    cmd += ['-D' + d.lstrip('-D') if not d.startswith('-D') else d for d in h.defines]
    if witness_define: cmd += ['-DWITNESS']
    if h.weak_cas: cmd += ['-DIR_WEAK_CAS_MAY_FAIL']
    if h.unwind is not None: cmd += ['--unwind', str(h.unwind), '--unwinding-assertions']
    if h.unwindset: cmd += ['--unwindset', h.unwindset]
    if h.mode == 'stop': cmd += ['--stop-on-fail']
    if h.paths: cmd += ['-DIR_BRANCHFREE_MEM', '--paths', 'lifo']     # path-wise symbolic execution: control flow (hence every pointer) is concrete on each path, data stays symbolic; one SAT query per path
    if trace: cmd += ['--trace']
    if h.backend == 'z3': cmd += ['--z3']
    elif h.backend in ('cvc5', 'cvc5int'): cmd += ['--cvc5']
    elif h.backend == 'kissat': cmd += ['--external-sat-solver', 'kissat']
    elif h.backend in ('cadical', None): cmd += ['--sat-solver', 'cadical']      # default back end: cadical (minisat stalled on single path queries of the heap harnesses: 10 s vs 0.07 s)
    elif h.backend == 'minisat': pass
    cmd += list(h.cbmc)
    return cmd

def parse_cbmc(out):
    props = []
    for ln in out.split('\n'):
        m = RES_RE.match(ln.strip())
        if m: props.append(dict(id=m.group(1), line=m.group(2), desc=m.group(3), status=m.group(4)))
    verdict = 'SUCCESSFUL' if 'VERIFICATION SUCCESSFUL' in out else 'FAILED' if 'VERIFICATION FAILED' in out else 'ERROR'
    st = {}
    m = re.search(r'(\d+) variables, (\d+) clauses', out)
    if m: st = dict(sat_variables=int(m.group(1)), sat_clauses=int(m.group(2)))
    m = re.search(r'Generated (\d+) VCC\(s\), (\d+) remaining after simplification', out)
    if m: st.update(vccs=int(m.group(1)), vccs_remaining=int(m.group(2)))
    m = re.search(r'size of program expression: (\d+) steps', out)
    if m: st['symex_steps'] = int(m.group(1))
    m = re.findall(r'Runtime (?:Solver|decision procedure): ([\d.]+)s', out)
    if m: st['solver_s'] = round(sum(float(x) for x in m), 3)
    return verdict, props, st

IN_RE = re.compile(r'^\s*(in_\w+)((?:\[\d+l?\])*)=(-?\d+)')
def trace_inputs(out, desc=None):
    """symbolic inputs of a counterexample: by convention every symbolic input of a harness is stored in a global named in_*"""
    vals = {}
    seg = out
    if desc is not None:
        # restrict to the trace printed for that property
        i = out.find('Trace for ')
        parts = re.split(r'\nTrace for ([^\n]+):\n', out)
        # parts: [pre, id1, body1, id2, body2...]
        for k in range(1, len(parts) - 1, 2):
            if parts[k].strip() == desc: seg = parts[k + 1]; break
    for ln in seg.split('\n'):
        m = IN_RE.match(ln)
        if m:
            idx = tuple(int(x.rstrip('l')) for x in re.findall(r'\[(\d+)l?\]', m.group(2)))
            vals[(m.group(1), idx)] = int(m.group(3))
    return vals

def write_replay_values(vals, path):
    with open(path, 'w') as f:
        f.write('/* generated from a cbmc counterexample trace */\n')
        f.write('static const struct { const char *n; long i, j; unsigned long long v; } IR_RV[] = {\n')
        for (n, idx), v in sorted(vals.items()):
            i = idx[0] if len(idx) > 0 else -1; j = idx[1] if len(idx) > 1 else -1
            f.write('  { "%s", %d, %d, %dull },\n' % (n, i, j, v & ((1 << 64) - 1)))
        f.write('  { 0, 0, 0, 0 } };\n')

def native_replay(h, wd, vals, tag):
    """run the same generated C natively with the counterexample's input values; returns (reproduced?, output)"""
    rv = os.path.join(wd, 'replay_values_%s.h' % tag); write_replay_values(vals, rv)
    exe = os.path.join(wd, 'replay_%s' % tag)
    hsrc = os.path.join(VERIF, 'harness', h.pid, h.file)
    cmd = ['gcc', '-O0', '-g', '-w', '-fno-builtin-malloc -fno-builtin-free -fno-builtin-calloc -fno-builtin-strlen -fno-builtin-strdup -fno-builtin-memcmp', '-DNATIVE_REPLAY', '-DREPLAY_VALUES="%s"' % rv, '-I', wd, '-I', TOOLS, '-I', os.path.join(VERIF, 'harness', 'common'),
           '-I', os.path.join(VERIF, 'harness', h.pid)] + [d if d.startswith('-D') else '-D' + d for d in h.defines] + (['-DIR_WEAK_CAS_MAY_FAIL'] if h.weak_cas else []) + \
          ['-x', 'c', hsrc, '-o', exe]
    r = subprocess.run(cmd, stdout=subprocess.PIPE, stderr=subprocess.STDOUT, text=True)
    if r.returncode != 0: return None, 'native build failed:\n' + r.stdout[-2000:]
    r = run_cmd([exe], 120, 8)
    return ('ASSERT FAIL' in r['out']), r['out'][-4000:]

def native_build(pid, file, wd, defines, out):
    """compile harness+model natively (same generated C that cbmc sees)"""
    hsrc = os.path.join(VERIF, 'harness', pid, file)
    cmd = ['gcc', '-O0', '-g', '-w', '-fno-builtin-malloc -fno-builtin-free -fno-builtin-calloc -fno-builtin-strlen -fno-builtin-strdup -fno-builtin-memcmp', '-DNATIVE_REPLAY', '-I', wd, '-I', TOOLS, '-I', os.path.join(VERIF, 'harness', 'common'), '-I', os.path.join(VERIF, 'harness', pid)] + \
          list(defines) + ['-x', 'c', hsrc, '-o', out]
    r = subprocess.run(cmd, stdout=subprocess.PIPE, stderr=subprocess.STDOUT, text=True)
    if r.returncode != 0: raise RuntimeError('native build of the model failed:\n' + r.stdout[-2000:])
    return out

def real_build(src, out, extra=()):
    """compile a small client program against the real library built from the current tree"""
    d = build_reallib()
    cmd = ['clang-16', '-fblocks', '-w', '-I' + REPO, '-I' + REPO + '/private', '-I' + REPO + '/src/BlocksRuntime', src, '-L' + d, '-ldispatch', '-lBlocksRuntime', '-Wl,-rpath,' + d, '-lpthread', '-o', out] + list(extra)
    r = subprocess.run(cmd, stdout=subprocess.PIPE, stderr=subprocess.STDOUT, text=True)
    if r.returncode != 0: raise RuntimeError('client build against the real library failed:\n' + r.stdout[-2000:])
    return out

def diff_model_vs_real(pid, hname, file, define, real_src, outdir, nvec_re=r'^VEC '):
    """translator validation: the generated model, run natively on fixed vectors, must print what the real library prints"""
    wd = os.path.join(outdir, hname)
    if not os.path.exists(os.path.join(wd, 'model.c')): return dict(ok=False, error='no model for ' + hname)
    m = native_build(pid, file, wd, [define], os.path.join(wd, 'diff_model'))
    r = real_build(os.path.join(VERIF, 'harness', pid, real_src), os.path.join(wd, 'diff_real'))
    om = run_cmd([m], 120, 8)['out']; orr = run_cmd([r], 120, 8)['out']
    lm = [l for l in om.split('\n') if re.match(nvec_re, l)]; lr = [l for l in orr.split('\n') if re.match(nvec_re, l)]
    mism = [(a, b) for a, b in zip(lm, lr) if a != b]
    ok = bool(lm) and len(lm) == len(lr) and not mism
    return dict(ok=ok, vectors=len(lm), mismatches=mism[:5], error=None if ok else 'model and real library disagree on %d of %d vectors (%d real lines): %s' % (len(mism), len(lm), len(lr), mism[:3]))

def run_harness(h, tier, outdir):
    """returns a result dict; never raises for solver-side problems (they become status 'broken' or 'inconclusive')"""
    wd = os.path.join(outdir, h.name); os.makedirs(wd, exist_ok=True)
    res = dict(name=h.name, file=h.file, note=h.note, status='ok', failures=[], witness_ok=None, queries=0, symbolic=h.symbolic)
    t0 = time.time()
    try:
        if h.probes:
            pv = probes(h.probes)
            with open(os.path.join(wd, 'probe.h'), 'w') as f:
                for n, v in sorted(pv.items()): f.write('#define P_%s %dull\n' % (n, v))
        if h.flat:
            funcs, ext = translate(h, wd); res['functions_encoded'] = funcs; res['environment_stubs'] = ext
        else:
            res['functions_encoded'] = list(h.entries); res['environment_stubs'] = list(h.stubs)
    except Exception as ex:
        import traceback
        res['status'] = 'broken'; res['error'] = 'translation failed: %s' % str(ex)[:700]; res['trace'] = traceback.format_exc()[-2000:]; return res
    res['translate_s'] = round(time.time() - t0, 2)
    runs = [('main', h.witness == 'inline')]
    if h.witness == 'twin': runs.append(('witness', True))
    res['runs'] = []
    for tag, wdef in runs:
        cmd = cbmc_cmd(h, wd, wdef, trace=not h.paths)      # path mode: no trace on the first run (trace construction for the witness of every path dominates); re-run with --trace on a real failure
        env = dict(os.environ, PATH=os.path.join(TOOLS, 'shim') + ':' + os.environ.get('PATH', '')) if h.backend == 'cvc5int' else None
        r = run_cmd(cmd, min(h.timeout, int(os.environ.get('VERIF_TIMEOUT', '100000'))), h.mem_gb, cwd=wd, env=env)
        if h.paths and not r['timeout']:
            v0, p0, _ = parse_cbmc(r['out'])
            if any(p['status'] != 'SUCCESS' and not p['desc'].startswith('witness') for p in p0):
                cmd = cbmc_cmd(h, wd, False, trace=True)
                r = run_cmd(cmd, min(h.timeout, int(os.environ.get('VERIF_TIMEOUT', '100000'))), h.mem_gb, cwd=wd)
        open(os.path.join(wd, 'cbmc_%s.log' % tag), 'w').write(' '.join(cmd) + '\n' + r['out'] + '\n--- stderr ---\n' + r['err'])
        verdict, props, st = parse_cbmc(r['out'])
        rr = dict(tag=tag, cmd=' '.join(cmd), wall_s=round(r['wall'], 2), rss_mb=r['rss_mb'], verdict=verdict, nprops=len(props), stats=st)
        res['runs'].append(rr)
        if r['timeout']:
            res['status'] = 'inconclusive'; res['error'] = '%s run: no verdict within %ds' % (tag, h.timeout); return res
        if verdict == 'ERROR' or (not props and h.mode != 'stop'):
            res['status'] = 'broken'; res['error'] = '%s run: cbmc gave no verdict (rc %s): %s' % (tag, r['rc'], (r['out'][-600:] + r['err'][-600:])); return res
        res['queries'] += max(len(props), 1)
        if h.mode == 'stop':
            # single-query mode: verdict is for the conjunction; the violated property is named in the trace
            viol = re.findall(r'Violated property:\s*\n\s*file .*? line (\d+).*?\n\s*(.*?)\n', r['out'])
            if tag == 'witness':
                res['witness_ok'] = (verdict == 'FAILED' and any('witness' in d for _, d in viol))
                if verdict == 'FAILED' and not res['witness_ok']:
                    res['failures'] += [dict(desc=d, line=l, run=tag) for l, d in viol]
            else:
                if verdict == 'FAILED':
                    res['failures'] += [dict(desc=d, line=l, run=tag) for l, d in viol] or [dict(desc='unnamed violation', line=None, run=tag)]
                res.setdefault('props', []).append(dict(desc='conjunction of all assertions of %s' % h.name, status=verdict))
            if tag == 'main' or not any(f.get('run') == 'main' for f in res['failures']): res['last_out'] = r['out']      # the counterexample trace of the MAIN run must not be replaced by the witness twin's
            continue
        wit = [p for p in props if p['desc'].startswith('witness')]
        oth = [p for p in props if not p['desc'].startswith('witness')]
        if tag == 'main':
            res['props'] = [dict(id=p['id'], desc=p['desc'], status=p['status']) for p in oth]
            for p in oth:
                if p['status'] != 'SUCCESS': res['failures'].append(dict(desc=p['desc'], id=p['id'], line=p['line'], run=tag, status=p['status']))
        if wdef:
            if not wit: res['witness_ok'] = False; res['error'] = 'no witness assertion in harness'
            else:
                bad = [p['desc'] for p in wit if p['status'] != 'FAILURE']
                if h.witness_any and len(bad) < len(wit): bad = []     # alternative end points: one reachable witness suffices
                res['witness_ok'] = not bad and res.get('witness_ok') is not False
                res['witnesses'] = [dict(desc=p['desc'], reachable=(p['status'] == 'FAILURE')) for p in wit]
                if bad: res['error'] = 'vacuous: witness not reachable: %s' % bad
        if tag == 'main' or not any(f.get('run') == 'main' for f in res['failures']): res['last_out'] = r['out']
    # expected failures (documented, e.g. a harness half that demonstrates a known finding)
    harness_faults = [f for f in res['failures'] if f['desc'].startswith(('unwinding assertion', 'no body for callee', 'harness bound', 'layout guard', 'recursion', 'model heap', 'model object table', 'model stack'))]
    if harness_faults:
        res['status'] = 'broken'; res['error'] = 'harness fault (bound too small / missing stub): %s' % sorted(set(f['desc'] for f in harness_faults))[:4]
        res.pop('last_out', None); res['wall_s'] = round(time.time() - t0, 2); return res
    if res['failures']:
        res['status'] = 'violation'
        out = res.get('last_out', '')
        for f in res['failures']:
            vals = trace_inputs(out, f.get('id'))
            f['inputs'] = {('%s%s' % (n, ''.join('[%d]' % i for i in idx))): v for (n, idx), v in sorted(vals.items())}
            tagf = re.sub(r'\W+', '_', (f.get('id') or 'v'))[:40]
            if h.flat or True:
                ok, nout = native_replay(h, wd, vals, tagf)
                f['native_replay'] = {True: 'reproduced', False: 'NOT reproduced', None: 'build failed'}[ok]; f['native_out'] = nout[-1500:]
    elif h.witness and res['witness_ok'] is False:
        res['status'] = 'broken'
    res.pop('last_out', None)
    res['wall_s'] = round(time.time() - t0, 2)
    return res

# ------------------------------------------------------------------------------------------------ known findings
def load_known():
    kf = []; p = os.path.join(VERIF, 'known-findings.txt')
    if os.path.exists(p):
        for ln in open(p):
            ln = ln.strip()
            if not ln or ln.startswith('#'): continue
            m = re.match(r'(known|fixed): property=(\S+)\s+(.*)', ln)
            if m: kf.append(dict(kind=m.group(1), pid=m.group(2), rest=m.group(3)))
    return kf

def match_known(pid, harness, failure):
    """a known finding is identified by property + harness + assertion text + the failing input (key=value list)"""
    for k in load_known():
        if k['kind'] != 'known' or k['pid'] != pid: continue
        m = re.match(r'harness=(\S+)\s+assert="([^"]*)"\s+inputs=\{([^}]*)\}\s*(.*)', k['rest'])
        if not m: continue
        if m.group(1) != harness or m.group(2) != failure['desc']: continue
        want = dict(x.split('=') for x in m.group(3).split(',') if x)
        got = failure.get('inputs', {})
        if all(str(got.get(a)) == b for a, b in want.items()): return m.group(4) or k['rest']
    return None

# ------------------------------------------------------------------------------------------------ property run
def run_property(pid, harnesses, tier, level='model_checking', assumptions=(), trusted_base=(), extra_validation=None, explanation=''):
    t0 = time.time()
    seed = int(os.environ.get('VERIF_SEED', '0') or 0)
    outdir = os.path.join(WORK, pid); shutil.rmtree(outdir, ignore_errors=True); os.makedirs(outdir, exist_ok=True)
    evp = os.path.join(os.environ.get('VERIF_EVIDENCE_DIR') or os.path.join(VERIF, 'evidence'), pid + '.json')
    hs = [h for h in harnesses if tier in h.tiers]
    seen = set(); hs = [h for h in hs if not (h.name in seen or seen.add(h.name))]      # duplicate registrations are run once
    for h in hs: h.pid = pid
    build_ir()   # once, before the parallel part
    for h in hs:
        if h.extra_tus: build_ir(tuple(h.extra_tus))
    results = []
    nworkers = int(os.environ.get('VERIF_JOBS', '16'))
    with cf.ThreadPoolExecutor(min(nworkers, max(1, len(hs)))) as ex:
        futs = {ex.submit(run_harness, h, tier, outdir): h for h in hs}
        for fu in cf.as_completed(futs):
            h = futs[fu]
            try: r = fu.result()
            except Exception as e:
                import traceback
                r = dict(name=h.name, status='broken', error=repr(e), trace=traceback.format_exc()[-1500:], failures=[], queries=0)
            results.append(r)
            log('[%s] %-28s %-12s %6.1fs  %s' % (pid, r['name'], r['status'], r.get('wall_s', 0), r.get('error', '')))
    results.sort(key=lambda r: [h.name for h in hs].index(r['name']))
    val = None
    if extra_validation:
        try: val = extra_validation(outdir)
        except Exception as e:
            import traceback
            val = dict(ok=False, error=repr(e), trace=traceback.format_exc()[-1500:])
    # ---- verdict
    violations = []; known = []; broken = []; inconcl = []
    for r in results:
        if r['status'] == 'violation':
            for f in r['failures']:
                k = match_known(pid, r['name'], f)
                if k is not None: known.append((r, f, k)); continue
                rp = os.path.join(outdir, r['name'], 'violation_%s.json' % re.sub(r'\W+', '_', f.get('id') or 'v')[:40])
                json.dump(dict(property=pid, harness=r['name'], assertion=f['desc'], inputs=f.get('inputs'), native_replay=f.get('native_replay'),
                               native_out=f.get('native_out'), cbmc_log=os.path.join(outdir, r['name'], 'cbmc_main.log')), open(rp, 'w'), indent=1)
                if f.get('native_replay') == 'NOT reproduced':
                    broken.append((r, 'counterexample for "%s" does not reproduce natively: encoding fault' % f['desc']))
                else: violations.append((r, f, rp))
        elif r['status'] == 'broken': broken.append((r, r.get('error', '')))
        elif r['status'] == 'inconclusive': inconcl.append(r)
    if val is not None and not val.get('ok', False): broken.append((dict(name='translator-validation'), val.get('error', 'mismatch')))
    obligations = sum(len(r.get('props', [])) for r in results)
    discharged = sum(1 for r in results for p in r.get('props', []) if p['status'] in ('SUCCESS', 'SUCCESSFUL'))
    queries = sum(r.get('queries', 0) for r in results)
    symbolic_obl = sum(len(r.get('props', [])) for r in results if r.get('symbolic'))
    GENERIC = ('unaligned ', 'memory access outside', 'model stack overflow', 'indirect call to', 'llvm.trap reached', 'call to external function', 'heap access outside', 'model heap', 'model object table',
               'free of an address', 'double free', 'unwinding assertion', 'recursion unwinding', '-', 'harness bound', 'layout guard')
    nontrivial = sum(len(set(p['desc'] for p in r.get('props', []) if not p['desc'].startswith(GENERIC))) for r in results if r['status'] in ('ok', 'violation') and (r.get('witness_ok') is not False))
    nontrivial += sum(1 for r in results if r['status'] == 'ok' and r.get('props') and all(p['desc'].startswith('conjunction of') for p in r['props']))
    funcs = sorted(set(f for r in results for f in r.get('functions_encoded', [])))
    samples = []
    for r in results[:40]:
        samples.append(dict(harness=r['name'], status=r['status'], note=r.get('note', ''), functions=len(r.get('functions_encoded', [])),
                            assertions=[p['desc'] for p in r.get('props', [])][:12], witnesses=r.get('witnesses'),
                            runs=[dict(tag=x['tag'], wall_s=x['wall_s'], rss_mb=x['rss_mb'], verdict=x['verdict'], stats=x['stats']) for x in r.get('runs', [])],
                            cmd=(r.get('runs') or [{}])[0].get('cmd')))
    ev = dict(property_id=pid, tier=tier, seed=seed, level=level, wall_s=round(time.time() - t0, 2), violations=len(violations),
              assumptions=list(assumptions),
              coverage=dict(evaluations=max(queries, 1), distinct_nontrivial=nontrivial,
                            rule='one evaluation = one assertion (or, in single-query / path-mode harnesses, one conjunction of assertions per query) of a harness decided by the SAT/SMT back end of cbmc over all '
                                 'values of the symbolic inputs within the stated unwind/size bounds; distinct_nontrivial = number of distinct (harness configuration, oracle assertion) pairs decided by the solver in harnesses whose reachability witness was confirmed - '
                                 'the generic memory-model assertions of the translation (alignment, mapped range, stack, indirect calls, traps) are not counted; single-query (path-mode) harnesses count once; symbolic_obligations = assertions decided in '
                                 'harnesses that have at least one symbolic input (tier H history queries are exhaustive case splits without symbolic inputs and are not counted there)',
                            symbolic_obligations=symbolic_obl,
                            obligations=max(obligations, 1), discharged=discharged, exhaustive=False,
                            checker_cmd='cbmc <harness.c> --function harness --no-standard-checks --drop-unused-functions --slice-formula [--unwind N --unwinding-assertions] --trace  (per harness; full command lines under samples[].cmd)',
                            trusted_base=list(trusted_base) + ['clang-14 front end (IR from /repo working tree, -O2 -Xclang -disable-llvm-passes, then mem2reg+simplifycfg)', 'tools/ir2flat.py (IR -> flat-memory C)', 'cbmc 6.11.0 + its SAT back end', 'harness stubs and invariants listed under assumptions'],
                            samples=samples, functions_encoded=funcs, n_functions_encoded=len(funcs), source_hash=src_hash(),
                            harnesses=len(results), harness_status={r['name']: r['status'] for r in results},
                            solver_s=round(sum((x['stats'] or {}).get('solver_s', 0) for r in results for x in r.get('runs', [])), 2),
                            peak_rss_mb=max([x['rss_mb'] or 0 for r in results for x in r.get('runs', [])] + [0]),
                            inconclusive=[r['name'] for r in inconcl], translator_validation=val, explanation=explanation,
                            known_findings=[dict(harness=r['name'], assertion=f['desc'], inputs=f.get('inputs')) for r, f, k in known]))
    os.makedirs(os.path.dirname(evp), exist_ok=True)
    json.dump(ev, open(evp, 'w'), indent=1)
    json.dump(results, open(os.path.join(outdir, 'results.json'), 'w'), indent=1, default=str)
    for r, f, k in known:
        print('KNOWN-FINDING: property=%s harness=%s "%s" inputs=%s %s' % (pid, r['name'], f['desc'], json.dumps(f.get('inputs')), k))
    for r, f, rp in violations:
        print('VIOLATION property=%s replay=%s' % (pid, rp))
        print('  harness=%s assertion="%s" inputs=%s native_replay=%s' % (r['name'], f['desc'], json.dumps(f.get('inputs')), f.get('native_replay')))
    for r, why in broken:
        print('BROKEN check property=%s harness=%s: %s' % (pid, r['name'], why))
    for r in inconcl:
        print('INCONCLUSIVE property=%s harness=%s: %s' % (pid, r['name'], r.get('error')))
    print('%s %s: %d harnesses, %d/%d obligations discharged, %d solver queries, %.1fs' % (pid, tier, len(results), discharged, obligations, queries, time.time() - t0))
    if violations: return 1
    if broken: return 2
    if inconcl and discharged == 0: return 2
    return 0
