#!/bin/sh
# run every registered check once (quick tier by default) against /repo's working tree; summary on stdout
cd "$(dirname "$0")/.."
TIER=${1:-quick}
for id in $(python3 -c "import json; print(' '.join(c['property_id'] for c in json.load(open('MANIFEST.json'))['checks']))"); do
  /usr/bin/time -f "$id wall %es" ./check $id --tier $TIER 2>/dev/null | grep -E "^(VIOLATION|KNOWN|BROKEN|INCONCLUSIVE|C[0-9]+ $TIER)" | cut -c1-220
done
