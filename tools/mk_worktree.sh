#!/bin/sh
# usage: mk_worktree.sh <dir>   — scratch worktree of /repo HEAD with a full build (library + tests) in <dir>/_build
set -e
D=$1
git -C /repo worktree add --detach -f "$D" HEAD >/dev/null 2>&1
cd "$D"
cmake -G Ninja -B _build -DCMAKE_C_COMPILER=clang-16 -DCMAKE_CXX_COMPILER=clang++-16 -DCMAKE_BUILD_TYPE=RelWithDebInfo -DBUILD_TESTING=ON >/dev/null 2>&1
ninja -C _build >/dev/null 2>&1
echo "worktree $D ready"
