#!/usr/bin/env python3
"""regenerate /verif/MANIFEST.json from harness/<id>/spec.py (claimed checks) and the NOT_APPLICABLE table below"""
import os, sys, json, importlib.util
V = os.path.dirname(os.path.dirname(os.path.abspath(__file__))); sys.path.insert(0, os.path.join(V, 'tools'))
IDS = ['C%02d' % i for i in range(1, 21)]
NOT_APPLICABLE = {  # property -> reason, used only while no harness/<id>/spec.py exists (or the spec sets CLAIMED = False)
 'C14': 'not applicable to solver-based checking of the real code within reach: the property is about io.c orchestrating fd_entries, streams, operations, sources, groups and several queues driven by kernel readiness (2800 lines, 66 block literals, every step a hop through the queue machinery); the byte-accounting kernel (_dispatch_operation_perform / _deliver_data) is entangled with channel, fd_entry, data and queue objects and could not be isolated soundly in the time available (see DESIGN.md section 4)',
}
PENDING = 'no solver harness is registered for this property in the committed tree yet (framework under construction; see DESIGN.md section 3 for the planned encoding)'
def main():
    checks = []; na = []
    for pid in IDS:
        sp = os.path.join(V, 'harness', pid, 'spec.py')
        mod = None
        if os.path.exists(sp):
            spec = importlib.util.spec_from_file_location('spec_' + pid, sp); mod = importlib.util.module_from_spec(spec); spec.loader.exec_module(mod)
        if mod is None or not getattr(mod, 'CLAIMED', True):
            na.append(dict(property_id=pid, reason=(getattr(mod, 'NA_REASON', None) if mod else None) or NOT_APPLICABLE.get(pid, PENDING))); continue
        c = dict(property_id=pid, quick_cmd='./check %s --tier quick' % pid, thorough_cmd='./check %s --tier thorough' % pid,
                 evidence_file='evidence/%s.json' % pid, replay_cmd_template='./check %s --replay {path}' % pid, engine='ir2flat+cbmc',
                 level_claimed=dict(category=getattr(mod, 'LEVEL', 'model_checking'), text=mod.LEVEL_TEXT, design_ref=getattr(mod, 'DESIGN_REF', 'DESIGN.md section 3, ' + pid)),
                 level_note=mod.LEVEL_NOTE, technique=getattr(mod, 'TECHNIQUE', 'bounded symbolic execution of the real code (clang IR -> flat-memory C) with cbmc; SAT verdict per assertion'))
        checks.append(c)
    m = dict(version=1,
             setup_cmd='sh tools/setup.sh',
             hooks=dict(guard='DISPATCH_VERIF', enable='none needed: the checks read /repo sources directly (clang -emit-llvm with the real -D/-I set); no guarded hook is committed',
                        baseline_off_cmd='cmake --build /repo/_build && ctest --test-dir /repo/_build -j8 --timeout 900', source_commits=[], add_only=True),
             engines=[dict(name='ir2flat+cbmc', path='tools/', serves_properties=[c['property_id'] for c in checks],
                           kind_free_text='LLVM IR of the real sources (clang-14, no optimisation passes) translated by tools/ir2flat.py into C over a flat paged memory; cbmc 6.11 decides every harness assertion for all values of the symbolic inputs within the stated bounds; counterexamples are replayed natively on the same generated C and, for API-level properties, against the real library')],
             checks=checks, not_applicable=na,
             notes='Every check rebuilds its IR from /repo working tree (content-hash keyed cache under /verif/.cache). Exit 0 = held within bounds, 1 = VIOLATION line, 2 = check broken (translation/solver/vacuity/translator-validation problem). Known findings: known-findings.txt.')
    json.dump(m, open(os.path.join(V, 'MANIFEST.json'), 'w'), indent=1)
    print('MANIFEST.json: %d checks, %d not applicable' % (len(checks), len(na)))
if __name__ == '__main__': main()
