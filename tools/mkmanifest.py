#!/usr/bin/env python3
"""regenerate /verif/MANIFEST.json from harness/<id>/spec.py (claimed checks) and the NOT_APPLICABLE table below"""
import os, sys, json, importlib.util
V = os.path.dirname(os.path.dirname(os.path.abspath(__file__))); sys.path.insert(0, os.path.join(V, 'tools'))
IDS = ['C%02d' % i for i in range(1, 21)]
NOT_APPLICABLE = {  # property -> reason, used only while no harness/<id>/spec.py exists (or the spec sets CLAIMED = False)
 'C14': 'not applicable to solver-based checking of the real code within reach: the property is about io.c orchestrating fd_entries, streams, operations, sources, groups and several queues driven by kernel readiness (2800 lines, 66 block literals, every step a hop through the queue machinery); the byte-accounting kernel (_dispatch_operation_perform / _deliver_data) is entangled with channel, fd_entry, data and queue objects and could not be isolated soundly in the time available (see DESIGN.md section 4)',
}
BASE_T = 'bounded symbolic execution of the real code (clang-14 LLVM IR of /repo sources -> flat-memory C, tools/ir2flat.py) decided by cbmc 6.11 (SAT, cadical): every harness assertion holds for all values of the symbolic inputs within the stated bounds; counterexamples are replayed natively. '
TECH = {
 'C01': 'tier S (one state-machine function from every 64-bit state word under bounded interference) + tier H (exhaustive bounded API histories, one query each) + tier Q (sequentialised threads: symbolic schedule of the MPSC push/pop kernel)',
 'C02': 'tier S (acquisition paths from every state word; main-queue and exclusive-owner lemmas) + tier H (histories incl. the real thread-bound main queue)',
 'C03': 'tier H (exhaustive bounded histories over target-queue hierarchies, LOCK-CHAIN oracle)',
 'C04': 'tier S (width algebra from every state word) + tier H (histories with barriers / set_width on a concurrent queue)',
 'C05': 'tier H (sync-return oracle) + memory orders read from the executed IR atomics + tier Q (semaphore kernel, symbolic schedule)',
 'C06': 'tier S (suspend-count arithmetic from every state word) + tier H (histories)',
 'C07': 'tier S (group state word, all 2^64 values, bounded interference; snapshot-interference lemma)',
 'C08': 'tier S (per-call permit accounting from every value) + tier Q (2 waiters x 2 signalers, symbolic schedule)',
 'C09': 'tier S (gate word) + tier Q (3 callers, symbolic schedule)',
 'C10': 'tier H (apply histories with helper scheduling) + tier S (one participant)',
 'C11': 'path-wise symbolic execution (cbmc --paths) of one heap operation from an arbitrary valid heap (induction step); cvc5 bit-vectors-as-integers for the firing arithmetic; budgeted depth-first exploration for the root re-arm',
 'C12': 'full-width bit-vector equivalence with a 128-bit reference (all 2^128 inputs)',
 'C13': 'object-graph shapes with symbolic contents, argument domain enumerated inside each query, object-table memory safety',
 'C14': 'tier K: induction (base case + step from an arbitrary symbolic in-flight state satisfying the invariant) over one stream operation',
 'C15': 'tier S (merge / latch under injected concurrent merges) + tier H (source histories)',
 'C16': 'tier H (cancellation histories through the real API)',
 'C17': 'tier H with real reference counting and an object table + tier S reference-accounting lemmas',
 'C18': 'symbolic attribute index / identifier (all table entries, all flags) + tier H identity histories incl. the thread-bound main queue',
 'C19': 'tier H (block-object histories)',
 'C20': 'path-wise symbolic execution (cbmc --paths) of the real transforms on symbolic bytes vs independent reference codecs, object-table memory safety',
}
PENDING = 'no solver harness is registered for this property in the committed tree yet (framework under construction; see DESIGN.md section 3 for the planned encoding)'
def main():
    checks = []; na = []
    for pid in IDS:
        sp = os.path.join(V, 'harness', pid, 'spec.py')
        mod = None
        if os.path.exists(sp):
            spec = importlib.util.spec_from_file_location('spec_' + pid, sp); mod = importlib.util.module_from_spec(spec); spec.loader.exec_module(mod)
        if mod is None or not getattr(mod, 'CLAIMED', True):
            na.append(dict(property_id=pid, reason=(getattr(mod, 'NA_REASON', None) if mod else None) or NOT_APPLICABLE.get(pid, PENDING))); continue
        c = dict(property_id=pid, quick_cmd='./check %s --tier quick' % pid, thorough_cmd='./check %s --tier thorough' % pid,
                 evidence_file='evidence/%s.json' % pid, replay_cmd_template='./check %s --replay {path}' % pid, engine='ir2flat+cbmc',
                 level_claimed=dict(category=getattr(mod, 'LEVEL', 'model_checking'), text=mod.LEVEL_TEXT, design_ref=getattr(mod, 'DESIGN_REF', 'DESIGN.md section 3, ' + pid)),
                 level_note=mod.LEVEL_NOTE, technique=getattr(mod, 'TECHNIQUE', BASE_T + 'Here: ' + TECH[pid]))
        checks.append(c)
    m = dict(version=1,
             setup_cmd='sh tools/setup.sh',
             hooks=dict(guard='DISPATCH_VERIF', enable='none needed: the checks read /repo sources directly (clang -emit-llvm with the real -D/-I set); no guarded hook is committed',
                        baseline_off_cmd='cmake --build /repo/_build && ctest --test-dir /repo/_build -j8 --timeout 900', source_commits=[], add_only=True),
             engines=[dict(name='ir2flat+cbmc', path='tools/', serves_properties=[c['property_id'] for c in checks],
                           kind_free_text='LLVM IR of the real sources (clang-14, no optimisation passes) translated by tools/ir2flat.py into C over a flat paged memory; cbmc 6.11 decides every harness assertion for all values of the symbolic inputs within the stated bounds; counterexamples are replayed natively on the same generated C and, for API-level properties, against the real library')],
             checks=checks, not_applicable=na,
             notes='Every check rebuilds its IR from /repo working tree (content-hash keyed cache under /verif/.cache). Exit 0 = held within bounds, 1 = VIOLATION line, 2 = check broken (translation/solver/vacuity/translator-validation problem). Known findings: known-findings.txt.')
    json.dump(m, open(os.path.join(V, 'MANIFEST.json'), 'w'), indent=1)
    print('MANIFEST.json: %d checks, %d not applicable' % (len(checks), len(na)))
if __name__ == '__main__': main()
