#!/bin/sh
# offline setup: nothing to fetch; check the tool chain and warm the IR / real-library caches from /repo's current tree
set -e
cd "$(dirname "$0")/.."
for t in clang-14 opt-14 llvm-link-14 cbmc gcc python3 cmake ninja clang-16; do command -v $t >/dev/null || { echo "missing tool: $t"; exit 1; }; done
mkdir -p .cache work evidence
python3 - <<'PY'
import sys; sys.path.insert(0, 'tools')
import vlib
print('IR:', vlib.build_ir()); print('real library:', vlib.build_reallib())
PY
