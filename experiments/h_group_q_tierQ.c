/* C07 tier Q: a group under REAL interleavings (sequentialised threads; context switch before every atomic access, every queue push and every kernel wait/wake).
   Initial state (built with the real API): one outstanding enter, NPEND notifications registered.
     thread 1: the final dispatch_group_leave (brings the count to zero, fires the notifications, wakes waiters)
     thread 2: dispatch_group_enter, then dispatch_group_notify_f(N_new) - re-uses the group; its enter is never left
     thread 3: dispatch_group_wait(FOREVER)
   Kernel: wait-on-address compares once on entry and then sleeps until a wake-by-address reaches it; wake wakes every sleeper.
   Oracle (the group word is sampled at every submission):
     EXACTLY-ONCE   every registered notification is submitted at most once, and exactly once if the count reached zero after it was registered
     NOT-BEFORE     an old notification is submitted only after the count was zero
     NOT-BEFORE/NEW N_new (registered after thread 2's own, never matched, enter) is submitted by nobody; split by whether it was appended before (REUSE-RACE) or after (SNAPSHOT)
                    the leaver detached the list
     WAIT           wait returns 0 only if the count was zero at some moment during the call; a waiter is never left asleep after such a moment */
#include "hpre.h"
static _Bool asleep[8], woken[8];
#define ENABLED__dispatch_wait_on_address(a, v, t, f) (asleep[ir_cur] ? woken[ir_cur] : (IR_LD32(a) != (u32)(v) || !(asleep[ir_cur] = 1)))
#define ENABLED__dispatch_wait_for_enqueuer(p) (IR_LD64(p) != 0)
static void g_rmw_done(unsigned long long a, unsigned long long old); static void g_cas_ok(unsigned long long a, unsigned long long nw);
#define IR_RMW_DONE(a, old, o) g_rmw_done(a, old)
#define IR_CAS_OK(a, old, nw, o) g_cas_ok(a, nw)
#include "model.c"
#include "hpost.h"
#include "probe.h"
#ifdef WAITER
#define Q_NTHR 3
#else
#define Q_NTHR 2
#endif
#include "seqthr.h"
#define DG IR_HEAP_BASE
#define GADDR (DG + P_OFF_dg_state)
#define QU (IR_HEAP_BASE + 96)        /* the notifications' target queue: only its reference count is touched (submission is the stub _dispatch_continuation_async) */
#define DC(i) (IR_HEAP_BASE + 128 + 64ull * (i))   /* group, queue and continuations share one 512-byte page of the model heap */
#define VALUE_MASK 0xfffffffcull
#define COUNT(s) ((u32)(-((u32)(s) & (u32)VALUE_MASK)) >> 2)
#ifndef NPEND
#define NPEND 2
#endif
void _dispatch_bug(u64 l, u64 v) { ASSERT(0, "_dispatch_bug"); }
u64 ir_dyn_alloca(u64 n) { ASSERT(0, "dynamic alloca"); return 0; }
void libdispatch_tsd_init(void) { }
static u64 errno_cell; u64 __errno_location(void) { if (!errno_cell) errno_cell = IR_HEAP_BASE + 112; return errno_cell; }
static int nalloc; u64 _dispatch_continuation_alloc_cacheonly(void) { ASSERT(nalloc < 3 && P_SZ_cont <= 64, "harness bound: continuations"); return DC(nalloc++); }
u64 _dispatch_continuation_alloc_from_heap(void) { ASSERT(0, "cache stub always succeeds"); return 0; }
u64 _dispatch_wait_for_enqueuer(u64 p) { return IR_LD64(p); }
u32 _dispatch_queue_override_qos(u64 q, u32 qos) { return qos; }
void _os_object_release_internal(u64 o) { } void _os_object_release_internal_n(u64 o, u16 n) { }
static _Bool zero_seen, zero_seen_since_wait, wait_started, wait_returned_ok_without_zero, detached; static _Bool new_appended_after_detach, new_appended;
static int pushes[4]; static _Bool pushed_before_zero, new_pushed;
static void sample(void) { if (COUNT(IR_LD64(GADDR)) == 0) { zero_seen = 1; if (wait_started) zero_seen_since_wait = 1; } }
static void g_rmw_done(unsigned long long a, unsigned long long old) {
  if (a == GADDR || a == GADDR + 4) sample();
  if (a == DG + P_OFF_dg_notify_tail) { if (ir_cur == 1) detached = 1; if (ir_cur == 2) { new_appended = 1; new_appended_after_detach = detached; } } }
static void g_cas_ok(unsigned long long a, unsigned long long nw) { if (a == GADDR) sample(); }
void _dispatch_continuation_async(u64 q, u64 dc, u32 qos, u64 flags) { ASSERT(q == QU, "submitted to the notification's own queue");
  for (int i = 0; i < 4; i++) if (dc == DC(i)) { pushes[i]++; if (i < NPEND && !zero_seen) pushed_before_zero = 1; if (i == NPEND) new_pushed = 1; } }
u32 _dispatch_wait_on_address(u64 a, u32 v, u64 t, u32 f) { asleep[ir_cur] = 0; woken[ir_cur] = 0; return 0; }
void _dispatch_wake_by_address(u64 a) { ASSERT(a == GADDR + 4, "wakes sleepers on the generation word"); for (int t = 1; t <= 3; t++) if (asleep[t]) woken[t] = 1; }
static u64 rv3;
static void leaver(void) { TH_BEGIN TH_CALL(1, dispatch_group_leave(DG)) TH_END }
static void reuser(void) { TH_BEGIN TH_CALL(1, dispatch_group_enter(DG)) sample(); TH_CALL(2, dispatch_group_notify_f(DG, QU, 0x2222, 0x77)) TH_END }
static void waiter(void) { TH_BEGIN wait_started = 1; sample(); TH_CALL(1, rv3 = dispatch_group_wait(DG, ~0ull)) if (rv3 == 0 && !zero_seen_since_wait) wait_returned_ok_without_zero = 1; TH_END }
static void q_thread(int t) { if (t == 1) leaver(); else if (t == 2) reuser(); else waiter(); }
#ifndef WAITER
#define WAITER_DONE 1
#else
#define WAITER_DONE tdone[3]
#endif
static void run_to_completion(void) { ASSERT(!ir_yielded, "set-up call ran to completion"); }
void harness(void) {
  ir_init_globals(); for (int t = 0; t < IR_NT; t++) IR_ST32(TLS___dispatch_tsd(t), 0x100 + 4 * t);
  IR_ST32(QU + P_OFF_ref, 9); IR_ST32(DG + P_OFF_ref, 5); IR_ST32(DG + P_OFF_xref, 1);
  /* initial state through the real API, on thread 0, uninterrupted */
  ir_cur = 0; ir_budget = 1000; ir_yielded = 0;
  dispatch_group_enter(DG); run_to_completion();
  for (int i = 0; i < NPEND; i++) { dispatch_group_notify_f(DG, QU, 0x1000 + i, 0x77); run_to_completion(); }
  ASSERT(COUNT(IR_LD64(GADDR)) == 1 && (IR_LD64(GADDR) & 2), "set-up: one enter outstanding, notifications armed");
  zero_seen = 0;
  for (int r = 0; r < Q_ROUNDS; r++) for (int t = 1; t <= Q_NTHR; t++) { q_run_slice(r, t); ir_cur = 0;
    ASSERT(!pushed_before_zero, "NOT-BEFORE: a notification is submitted only after every enter made before its registration has been left (the count was zero)");
    ASSERT(!(new_pushed && new_appended_after_detach), "NOT-BEFORE/SNAPSHOT: a notification registered (after a new enter) while the previous generation's notifications are being fired is not fired with them");
    ASSERT(!(new_pushed && !new_appended_after_detach), "NOT-BEFORE/REUSE-RACE: a notification registered after a new enter, before the previous generation's leaver detached the list, is not fired while that enter is outstanding");
    ASSERT(!wait_returned_ok_without_zero, "WAIT: dispatch_group_wait returns zero only if the count was zero at some moment during the call");
    for (int i = 0; i < 4; i++) ASSERT(pushes[i] <= 1, "EXACTLY-ONCE: a notification is never submitted twice"); }
  q_finish();
  ASSERT(tdone[1] && tdone[2], "leave / enter / notify never block");
  ASSERT(!pushed_before_zero && !wait_returned_ok_without_zero, "NOT-BEFORE / WAIT (tail)");
  ASSERT(!(new_pushed && new_appended_after_detach), "NOT-BEFORE/SNAPSHOT (tail)");
  ASSERT(!(new_pushed && !new_appended_after_detach), "NOT-BEFORE/REUSE-RACE (tail)");
  if (zero_seen) for (int i = 0; i < NPEND; i++) ASSERT(pushes[i] == 1, "EXACTLY-ONCE / LEFT-BEHIND: once the count has reached zero every notification registered before is submitted exactly once");
  else for (int i = 0; i < NPEND; i++) ASSERT(pushes[i] == 0, "NOT-BEFORE: the count never reached zero (the group was re-entered first): nothing is submitted");
  if (zero_seen_since_wait) ASSERT(WAITER_DONE, "LEFT-BEHIND: a waiter is not left asleep when the count reached zero during its call");
  WITNESS_IF(zero_seen && WAITER_DONE, "the count reached zero (and the waiter returned)"); WITNESS_IF(!zero_seen, "the group was re-entered before the last leave"); WITNESS_IF(new_appended && zero_seen, "the group was re-used while the leaver was at work");
}
