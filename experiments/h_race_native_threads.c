/* C01 tier I (interleavings, cbmc native threads): the enqueuer's wakeup against the drainer's unlock on the SAME queue state word - the race behind "no lost wake-up".
   Thread 1 (drainer, owner of the drain lock) runs the real _dispatch_queue_drain_try_unlock; thread 2 (an enqueuer that found the list empty and has just linked its
   item) runs the real _dispatch_queue_wakeup(MAKE_DIRTY).  Every atomic instruction of the IR is one atomic step; cbmc explores ALL interleavings of the two threads.
   All addresses are constants (the queue object is fixed), which is what makes native threads usable here (DESIGN 3). */
#define IR_NATIVE_THREADS 1
#define IR_VISIBLE() __CPROVER_atomic_begin()
#define IR_VISIBLE_END() __CPROVER_atomic_end()
#include "hpre.h"
#include "model.c"
#include "hpost.h"
#include "probe.h"
#define DQ IR_HEAP_BASE
#define TQ (IR_HEAP_BASE + 256)
#define ST (DQ + P_OFF_dq_state)
u64 ir_dyn_alloca(u64 n) { return 0; }
void libdispatch_tsd_init(void) { }
void _dispatch_bug(u64 l, u64 v) { }
static int pushes; static int done1, done2; static _Bool unlock_ok;
void _dispatch_queue_push_queue(u64 t, u64 q, u64 st) { __CPROVER_atomic_begin(); pushes++; __CPROVER_atomic_end(); }
void _dispatch_release_2_tailcall(u64 o) { }
void _dispatch_retain_2(u64 o) { }
void _dispatch_set_basepri_override_qos(u32 q) { }
void _dispatch_queue_wakeup_with_override_slow(u64 a, u64 b, u32 c) { }
void _dispatch_lane_wakeup(u64 a, u32 b, u32 c) { }
static u64 in_role, in_qos;
#define IN_BARRIER 0x0040000000000000ull
#define WIDTH_INTERVAL 0x0000020000000000ull
#define FULL_BIT 0x0020000000000000ull
void drainer(void) { ir_cur = 1; IR_SP = IR_STACK_BASE + 1ull * IR_STACK_STRIDE;
  _Bool ok = _dispatch_queue_drain_try_unlock(DQ, IN_BARRIER + WIDTH_INTERVAL, 1);
  __CPROVER_atomic_begin(); unlock_ok = ok; done1 = 1; __CPROVER_atomic_end(); }
void pusher(void) { ir_cur = 2; IR_SP = IR_STACK_BASE + 2ull * IR_STACK_STRIDE;
  _dispatch_queue_wakeup(DQ, 0, (u32)(P_WAKEUP_MAKE_DIRTY | P_WAKEUP_CONSUME_2), 1);
  __CPROVER_atomic_begin(); done2 = 1; __CPROVER_atomic_end(); }
void harness(void) {
  ir_init_globals();
  IR_ST32(TLS___dispatch_tsd(1), 0x104); IR_ST32(TLS___dispatch_tsd(2), 0x108);
  SYM(in_role); SYM(in_qos); in_role = (in_role & 1) ? 0x0000001000000000ull : 0; in_qos = (in_qos & 7) % 7;
  /* a serial queue, locked in barrier mode by the drainer (tid 0x104), list just became non-empty */
  IR_ST64(ST, IN_BARRIER | FULL_BIT | in_role | (in_qos << 32) | 0x104);
  IR_ST16(DQ + P_OFF_dq_width, 1); IR_ST64(DQ + P_OFF_do_targetq, TQ); IR_ST32(DQ + P_OFF_priority, 0);
  __CPROVER_ASYNC_1: drainer();
  __CPROVER_ASYNC_2: pusher();
  __CPROVER_atomic_begin(); int d1 = done1, d2 = done2, p = pushes; _Bool ok = unlock_ok; u64 st = IR_LD64(ST); __CPROVER_atomic_end();
  if (d1 && d2) {
    ASSERT(!(ok && p == 0), "LOST WAKE-UP: the drainer released the lock without seeing DIRTY and the enqueuer did not enqueue the queue: the item is stranded");
    ASSERT(!(!ok && p == 1), "DOUBLE DRIVE: the drainer keeps the lock and the queue was also pushed to its target");
    ASSERT(ok || (st & 0x3fffffffull) == 0x104, "a refused unlock leaves the owner in place");
#ifdef WITNESS
    ASSERT(!(ok && p == 1), "witness: unlock-then-enqueue order reachable");
#endif
  }
}
