/* C17 tier S (timer heap references): "the heap owns a +2 on every dispatch source it references".  Real _dispatch_timer_unote_resume (+ _arm / _disarm, src/event/event.c) from an
   arbitrary timer record: armed or not, any old heap index, any timer flags (clock / QoS class => new heap index), any target, cancelled or not, owner source suspended or not.
   Oracle: references taken minus references returned == (armed afterwards) - (armed before); at most one reference operation; the timer ends armed exactly when it needs to be;
   a timer that changes heap is removed from the old one and inserted in the new one. */
#include "hpre.h"
#include "model.c"
#include "hpost.h"
#include "probe.h"
#define DT IR_HEAP_BASE
#define DS (IR_HEAP_BASE + 1024)
void _dispatch_bug(u64 l, u64 v) { ASSERT(0, "_dispatch_bug"); }
u64 ir_dyn_alloca(u64 n) { ASSERT(0, "dynamic alloca"); return 0; }
void libdispatch_tsd_init(void) { }
static int retains, releases, inserts, removes, updates; static u64 ins_heap, rem_heap, upd_heap;
void _dispatch_retain_2(u64 o) { ASSERT(o == DS, "the timer's owner source is retained"); retains++; }
void _dispatch_release_2_tailcall(u64 o) { ASSERT(o == DS, "the timer's owner source is released"); releases++; }
void _dispatch_timer_heap_insert(u64 h, u64 dt) { inserts++; ins_heap = h; }
void _dispatch_timer_heap_remove(u64 h, u64 dt) { removes++; rem_heap = h; }
void _dispatch_timer_heap_update(u64 h, u64 dt) { updates++; upd_heap = h; }
static u64 in_armed, in_ident, in_flags, in_target, in_cancelled, in_suspended;
void harness(void) {
  ir_init_globals(); ir_heap_next = IR_HEAP_BASE + 2048;
  SYM(in_armed); in_ident = IDENT; in_flags = (CLK == 0 ? P_CLOCK_FLAG_UPTIME : CLK == 1 ? P_CLOCK_FLAG_MONO : P_CLOCK_FLAG_WALL);     /* old heap index and new clock: case split by the driver (a symbolic heap index makes every heap address symbolic: out of memory) */
  SYM(in_target); SYM(in_cancelled); SYM(in_suspended); in_armed &= 1; in_cancelled &= 1; in_suspended &= 1;
  ASSUME(in_ident < P_TIMER_COUNT);                                  /* an armed timer sits in one of the heaps */
  IR_ST64(DT + P_OFF_du_owner_wref, ~DS);
  IR_ST64(DT + P_OFF_du_state, P_WLH_ANON | (in_armed ? P_DU_STATE_ARMED : 0));       /* du_state = event loop (anonymous) | armed bit */
  IR_ST32(DT + P_OFF_du_ident, in_cancelled ? 0xffffffffu : (u32)in_ident); ASSUME(!(in_cancelled && in_armed));      /* cancellation disarms first (event.c: _dispatch_timer_unote_unregister) */
  IR_ST8(DT + P_OFF_du_timer_flags, (u8)in_flags); IR_ST64(DT + P_OFF_dt_timer, in_target);
  IR_ST64(DS + P_OFF_dq_state, in_suspended ? 0x0400000000000000ull : 0);
  _dispatch_timer_unote_resume(DT);
  _Bool armed_after = (IR_LD64(DT + P_OFF_du_state) & P_DU_STATE_ARMED) != 0;
  ASSERT(retains - releases == (int)armed_after - (int)in_armed, "HEAP REFERENCE: the timer heap holds its reference on the owner source exactly while the timer is armed (taken when it becomes armed, returned when it stops being armed, untouched when it stays armed - also when it moves to another heap)");
  ASSERT(retains + releases <= 1, "at most one reference operation per re-registration");
  ASSERT(armed_after == (!in_suspended && !in_cancelled && (s64)in_target < 0x7fffffffffffffffll && in_target < 0x7fffffffffffffffull), "the timer ends armed exactly when it needs to fire: owner not suspended, not cancelled, a finite target");
  if (armed_after) { ASSERT(inserts + updates == 1, "an armed timer is (re-)inserted or updated in a heap exactly once");
    if (in_armed && removes) ASSERT(inserts == 1 && ins_heap != rem_heap, "a timer that changes heap (clock / QoS class changed) leaves the old heap and enters the new one");
    if (in_armed && !removes) ASSERT(updates == 1, "a timer that stays in its heap is updated in place"); }
  else ASSERT(inserts + updates == 0 && removes == (int)in_armed, "a timer that stops being armed is removed from its heap");
  WITNESS_IF(in_armed && removes && inserts, "armed timer moved to another heap"); WITNESS_IF(!in_armed && armed_after, "timer became armed"); WITNESS_IF(in_armed && !armed_after, "timer disarmed");
}
