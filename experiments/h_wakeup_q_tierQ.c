/* C01 tier Q: the lost-wake-up race itself, under REAL interleavings.  A producer publishes an item with the real _dispatch_queue_push_item and then - the
   list was empty - wakes the queue with the real _dispatch_queue_wakeup(MAKE_DIRTY, TARGET) (what _dispatch_lane_push does for a plain item) while the drainer that still holds the drain lock of
   the (serial) queue, having found the list empty, runs the real _dispatch_queue_drain_try_unlock(done) and - if that is refused because DIRTY was set - looks at the list again
   (real _dispatch_queue_get_head / _dispatch_queue_pop_head) and retries.  Context switch possible before every atomic access, the hand-off to the target and the enqueuer wait.
   Oracle: the item is either consumed by the drainer, or the queue has been handed to its target exactly once (ENQUEUED set, _dispatch_queue_push_queue called) so that a new
   drainer will come; never: item in the list, queue unlocked, not enqueued (stranded). */
#include "hpre.h"
#define ENABLED__dispatch_wait_for_enqueuer(p) (IR_LD64(p) != 0)
#include "model.c"
#include "hpost.h"
#include "probe.h"
#define Q_NTHR 2
#include "seqthr.h"
#define DQ IR_HEAP_BASE
#define TQ (IR_HEAP_BASE + 200)
#define VT (IR_HEAP_BASE + 256)
#define ITEM (IR_HEAP_BASE + 128)
#define T_PROD 0x104ull
#define T_DRAIN 0x108ull
#define OWNED (P_IN_BARRIER + P_WIDTH_INTERVAL)
void _dispatch_bug(u64 l, u64 v) { ASSERT(0, "_dispatch_bug"); }
u64 ir_dyn_alloca(u64 n) { ASSERT(0, "dynamic alloca"); return 0; }
void libdispatch_tsd_init(void) { }
void _dispatch_set_basepri_override_qos(u32 q) { }
void _dispatch_queue_wakeup_with_override_slow(u64 a, u64 b, u32 c) { }
void _dispatch_release_2_tailcall(u64 o) { } void _dispatch_retain_2(u64 o) { }
u64 _dispatch_wait_for_enqueuer(u64 p) { return IR_LD64(p); }
static int handoffs; static u64 handoff_state; static _Bool consumed, unlocked; static int refusals;
void _dispatch_queue_push_queue(u64 tq, u64 dq, u64 st) { ASSERT(tq == TQ && dq == DQ, "the queue is handed to its own target"); handoffs++; handoff_state = st; }
static u64 hd[IR_NT]; static _Bool okv[IR_NT];
/* the item is already published (tail != 0); the producer performs the wake-up every enqueuer that found the list empty performs: real _dispatch_queue_wakeup(MAKE_DIRTY, TARGET) */
static void producer(void) { TH_BEGIN TH_CALL(1, _dispatch_queue_wakeup(DQ, 0, P_WAKEUP_MAKE_DIRTY, 1 /* DISPATCH_QUEUE_WAKEUP_TARGET */)) TH_END }
/* the lock holder found the list empty before the item was published and now gives the lock back: real _dispatch_queue_drain_try_unlock(done) */
static void drainer(void) { TH_BEGIN TH_CALL(1, okv[ir_cur] = _dispatch_queue_drain_try_unlock(DQ, OWNED, 1)) unlocked = okv[ir_cur]; if (!unlocked) refusals++; TH_END }
static void q_thread(int t) { if (t == 1) producer(); else drainer(); }
void harness(void) {
  ir_init_globals(); IR_ST32(TLS___dispatch_tsd(0), 0x100); IR_ST32(TLS___dispatch_tsd(1), (u32)T_PROD); IR_ST32(TLS___dispatch_tsd(2), (u32)T_DRAIN);
  IR_ST64(DQ + P_OFF_do_targetq, TQ); IR_ST16(DQ + P_OFF_dq_width, 1); IR_ST32(DQ + P_OFF_ref, 9);
  /* the serial queue is drain-locked by the drainer (owner, IN_BARRIER, whole width), its list is empty */
  IR_ST64(DQ + P_OFF_dq_state, ((0x1000ull - 1) << 41) + OWNED + (T_DRAIN & P_OWNER_MASK) + P_ROLE_ANON);
  IR_ST64(ITEM + P_OFF_dc_flags, 0x4); IR_ST64(DQ + P_OFF_items_tail, ITEM); IR_ST64(DQ + P_OFF_items_head, ITEM);      /* the item is published */
  for (int r = 0; r < Q_ROUNDS; r++) for (int t = 1; t <= Q_NTHR; t++) { q_run_slice(r, t); ir_cur = 0; ASSERT(handoffs <= 1, "NO-DOUBLE-DRIVE: the queue is handed to its target at most once"); }
  q_finish();
  ASSERT(tdone[1] && tdone[2], "both calls return");
  u64 st = IR_LD64(DQ + P_OFF_dq_state);
  if (unlocked) { ASSERT((st & P_OWNER_MASK) == 0, "a successful unlock clears the owner");
    ASSERT((st & P_ENQUEUED) && handoffs == 1, "NO-STRANDING: when the lock holder got away without seeing DIRTY, the enqueuer's wake-up found the queue unlocked and handed it to its target exactly once (a new drainer will come for the published item)");
    WITNESS_REACHED("unlock first, then the wake-up enqueues the queue"); }
  else { ASSERT((st & P_OWNER_MASK) == (T_DRAIN & P_OWNER_MASK) && handoffs == 0 && !(st & P_ENQUEUED), "HAND-OFF: a refused unlock leaves the lock with its holder (who must look at the list again); the wake-up did not enqueue a locked queue");
    ASSERT(!(st & P_DIRTY), "the refused unlock consumed the DIRTY bit");
    WITNESS_REACHED("wake-up first: the unlock is refused"); }
}
