/* C17 tier Q: two threads make the FIRST dispatch_queue_set_specific on one queue at the same time (real interleavings; context switch before every atomic access, every
   allocation / free and every lock sleep).  Both create a specific-head; one installs it with the compare-and-swap, the loser must free ITS OWN head and continue with
   the installed one.  Object table on: every heap access is checked against live objects (a loser that goes on using its freed head is a use-after-free).
   Oracle: no access outside a live object; exactly one head stays installed and is live; both keys are found afterwards with their values; the loser's head was freed once. */
#define IR_CHECK_OBJECTS 1
#include "hpre.h"
static int lock_word_free(unsigned long long a);
#define ENABLED__dispatch_unfair_lock_lock_slow(l, f) (IR_LD32(l) == 0)
#include "model.c"
#define IR_MAX_OBJ 12
#define IR_BUMP_SLOT 64
#include "hpost.h"
#include "probe.h"
#define Q_NTHR 2
#include "seqthr.h"
#define MQ G__dispatch_main_q
void _dispatch_bug(u64 l, u64 v) { ASSERT(0, "_dispatch_bug"); }
u64 ir_dyn_alloca(u64 n) { ASSERT(0, "dynamic alloca"); return 0; }
void libdispatch_tsd_init(void) { }
static int nfree_; 
u64 _dispatch_calloc(u64 n, u64 sz) { u64 p = ir_bump(n * sz); ASSERT(n * sz <= 64 && ((n * sz) & 7) == 0, "harness bound: allocation size");
  if (n * sz > 0) IR_ST64(p, 0); if (n * sz > 8) IR_ST64(p + 8, 0); if (n * sz > 16) IR_ST64(p + 16, 0); if (n * sz > 24) IR_ST64(p + 24, 0); if (n * sz > 32) IR_ST64(p + 32, 0); if (n * sz > 40) IR_ST64(p + 40, 0); if (n * sz > 48) IR_ST64(p + 48, 0); if (n * sz > 56) IR_ST64(p + 56, 0); return p; }
void free(u64 p) { if (p) { ir_obj_free(p); nfree_++; } }
void _dispatch_unfair_lock_lock_slow(u64 l, u32 flags) { ASSERT(IR_LD32(l) == 0, "scheduler: lock sleeper resumed while the lock is held"); IR_ST32(l, IR_LD32(TLS___dispatch_tsd(ir_cur)) & 0x3ffffffcu); }   /* acquires once the holder has released */
void _dispatch_unfair_lock_unlock_slow(u64 l, u32 cur) { }
void _dispatch_barrier_async_detached_f(u64 q, u64 c, u64 f) { ASSERT(0, "no value is replaced in this scenario"); }
static void setter(int k) { TH_BEGIN TH_CALL(1, dispatch_queue_set_specific(MQ, 0x5150ull + 16 * (u64)k, 0x1000ull + (u64)k, 0)) TH_END }
static void q_thread(int t) { setter(t); }
void harness(void) {
  ir_init_globals(); for (int t = 0; t < IR_NT; t++) IR_ST32(TLS___dispatch_tsd(t), 0x100 + 4 * t);
  ASSERT(IR_LD64(MQ + P_OFF_dq_specific_head) == 0, "layout guard: no specific head yet");
  for (int r = 0; r < Q_ROUNDS; r++) for (int t = 1; t <= Q_NTHR; t++) q_run_slice(r, t);
  q_finish();
  ASSERT(tdone[1] && tdone[2], "both calls return");
  u64 head = IR_LD64(MQ + P_OFF_dq_specific_head); int hi = ir_obj_find(head);
  ASSERT(head != 0 && hi >= 0 && ir_obj_live[hi], "LIFETIME: the installed queue-specific head is a live object");
  ir_cur = 0; ir_budget = 1000; ir_yielded = 0;
  ASSERT(dispatch_queue_get_specific(MQ, 0x5150ull + 16) == 0x1001ull && dispatch_queue_get_specific(MQ, 0x5150ull + 32) == 0x1002ull, "SPECIFIC: both values set by the two racing first calls are found afterwards");
  ASSERT(nfree_ <= 1, "the loser of the installation race frees its own head, once");
  WITNESS_IF(nfree_ == 1, "the two first calls raced: one head was discarded"); WITNESS_IF(nfree_ == 0, "no race: the second caller found the head installed");
}
