/* C06 tier S: suspend / resume arithmetic over ALL state words and side counts, real _dispatch_lane_suspend(+_slow) and _dispatch_lane_resume(+_slow).
   Abstract suspend count  T = inline counter (bits 63..58) + side counter.  Representation invariant: HAS_SIDE_SUSPEND_CNT bit set <=> side counter > 0,
   side counter a multiple of SUSPEND_HALF (32).  One call must change T by exactly one and keep the invariant; resume to zero must restart the queue. */
static unsigned long long side_now(void);
#define ST_VALID_STEP(prev, nw) ((((nw) & 0x0200000000000000ull) != 0) == (side_now() > 0))   /* the side-count bit only changes under the side lock, which the caller holds or nobody does */
#include "st.h"
static unsigned long long side_now(void) { return IR_LD32(DQ + P_OFF_side_cnt); }
void _dispatch_bug(u64 l, u64 v) { ASSERT(0, "_dispatch_bug"); }
void _dispatch_set_basepri_override_qos(u32 q) { }
void _dispatch_unfair_lock_lock_slow(u64 l, u32 f) { ASSERT(0, "side lock contended (not modelled in tier S)"); }
void _dispatch_unfair_lock_unlock_slow(u64 l, u32 f) { ASSERT(0, "side lock contended (not modelled in tier S)"); }
static int retains2, releases2, wakeups; static u32 wakeup_flags; static u64 wakeup_state;
void _dispatch_retain_2(u64 o) { retains2++; }
void _dispatch_release_2(u64 o) { releases2++; }
void _dispatch_release_2_tailcall(u64 o) { releases2++; }
void _dispatch_lane_wakeup(u64 dq, u32 qos, u32 flags) { wakeups++; wakeup_flags = flags; wakeup_state = IR_LD64(ST_ADDR); }
void _dispatch_lane_activate(u64 dq, u64 allow) { }
static u64 in_side;
static u64 total(u64 s, u64 side) { return (s >> 58) + side; }
static _Bool st_valid(u64 s) { return 1; }
static void setup(void) {
  st_setup(); SYM(in_side); ASSUME(in_side <= 96 && (in_side & 31) == 0);
  ASSUME(((in_state & HAS_SIDE_SUSPEND) != 0) == (in_side > 0));
  IR_ST32(DQ + P_OFF_side_cnt, (u32)in_side); IR_ST32(DQ + P_OFF_sidelock, 0);
  u64 vt = ir_bump(P_SZ_vtable); IR_ST64(DQ + P_OFF_vtable, vt); IR_ST64(vt + P_OFF_vt_wakeup, FN__dispatch_lane_wakeup); IR_ST64(vt + P_OFF_vt_activate, FN__dispatch_lane_activate);
  IR_ST64(vt + P_OFF_vt_type, P_LANE_TYPE);
}

#ifdef H_SUSPEND
void harness(void) {
  setup(); st_interfere_on = ST_INTERFERE;
  u64 T0; /* the abstract count at the linearisation point is taken from the last observed word */
  _dispatch_lane_suspend(DQ);
  u64 o = st_last_old, n = IR_LD64(ST_ADDR), side1 = side_now();
  /* the unit's last atomic update turned `o` (with the side count it found) into `st_last_new`; afterwards it may add to the side count under the side lock */
  u64 side0 = (st_ninterfere, in_side);
  ASSERT(total(st_last_new, side1) == total(o, side0) + 1, "COUNT: dispatch_suspend raises the total suspend count (inline + side) by exactly one");
  ASSERT(((st_last_new & HAS_SIDE_SUSPEND) != 0) == (side1 > 0), "the side-count bit is set exactly when the side counter is non-zero");
  ASSERT((side1 & 31) == 0 && side1 >= side0, "the side counter grows in units of SUSPEND_HALF");
  ASSERT(((st_last_new ^ o) & ~(SUSPEND_BITS)) == 0 && ((st_last_new ^ o) & (INACTIVE | NEEDS_ACTIVATION)) == 0, "no other bit of the state word changes");
  ASSERT(st_last_new >= NEEDS_ACTIVATION, "afterwards the queue is suspended");
  ASSERT(IR_LD32(DQ + P_OFF_sidelock) == 0, "the side lock is released");
  if (side1 == side0) ASSERT(retains2 == ((o >= NEEDS_ACTIVATION) ? 0 : 1), "the first suspension takes the +2 reference that the matching resume's wakeup consumes");
  WITNESS_IF(side1 > side0, "spill into the side counter"); WITNESS_IF(side1 == side0 && o < NEEDS_ACTIVATION, "first suspension");
}
#endif

#ifdef H_RESUME
void harness(void) {
  setup();
  ASSUME(total(in_state, in_side) >= 1 && !(in_state & (INACTIVE | NEEDS_ACTIVATION)) && !(in_state & ROLE_BASE_WLH));
  /* no interference in this lemma: the over-resume trap would fire on injected words with count 0 (that is the documented crash, not a defect) */
  _dispatch_lane_resume(DQ, 0);
  u64 o = st_last_old, n = st_last_new, side1 = side_now();
  /* a refill from the side counter is followed by the real decrement (the unit re-enters itself): compare first and last word */
  u64 fin = IR_LD64(ST_ADDR);
  ASSERT(total(fin, side1) + 1 == total(in_state, in_side), "COUNT: dispatch_resume lowers the total suspend count (inline + side) by exactly one");
  ASSERT(((fin & HAS_SIDE_SUSPEND) != 0) == (side1 > 0) && (side1 & 31) == 0, "the side-count bit is set exactly when the side counter is non-zero");
  ASSERT(IR_LD32(DQ + P_OFF_sidelock) == 0, "the side lock is released");
  if (total(fin, side1) > 0) { ASSERT(wakeups == 0 && releases2 == 0, "while suspensions remain nothing is woken and the +2 reference stays"); ASSERT(fin >= NEEDS_ACTIVATION, "still suspended"); WITNESS_REACHED("nested resume"); }
  else {
    ASSERT(wakeups + releases2 == 1, "RESTART: the last resume consumes the +2 reference exactly once, through the wakeup or a release");
    if (wakeups) {
      if (wakeup_flags & P_WAKEUP_BARRIER_COMPLETE) ASSERT(OWNER(wakeup_state) == TID && (wakeup_state & IN_BARRIER), "lock-transfer wakeup: the resumer holds the queue in barrier mode");
      ASSERT(wakeup_flags & P_WAKEUP_CONSUME_2, "the wakeup consumes the reference");
    } else ASSERT((fin & DIRTY) && (OWNER(fin) != 0 || (fin & (FULL_BIT | IN_BARRIER))), "RESTART: no wakeup only if somebody else holds the queue, and then DIRTY makes that holder re-examine it");
    WITNESS_IF(wakeups && !(wakeup_flags & P_WAKEUP_BARRIER_COMPLETE), "last resume: plain wakeup"); WITNESS_IF(wakeups && (wakeup_flags & P_WAKEUP_BARRIER_COMPLETE), "last resume: lock transfer"); WITNESS_IF(!wakeups, "last resume: left to the holder");
  }
  WITNESS_IF(side1 < in_side, "refill from the side counter");
}
#endif

#ifdef H_BLOCKED
/* a suspended or inactive queue cannot be entered: drain lock, barrier-sync fast path, reader fast paths all fail; wakeup does not enqueue it */
static _Bool st_valid2(u64 s) { return s >= NEEDS_ACTIVATION; }
static u64 in_which; static int pushes;
void _dispatch_queue_push_queue(u64 tq, u64 dq, u64 st) { pushes++; }
void _dispatch_queue_wakeup_with_override_slow(u64 a, u64 b, u32 c) { }
void harness(void) {
  setup(); ASSUME(in_state >= NEEDS_ACTIVATION); ASSUME(!(in_state & ROLE_BASE_WLH)); SYM(in_which); ASSUME(in_which < 5);
  _Bool got = 0;
  if (in_which == 0) { ASSUME(in_state & ENQUEUED); got = _dispatch_queue_drain_try_lock(DQ, 0) != 0; }
  else if (in_which == 1) got = _dispatch_queue_try_acquire_barrier_sync_and_suspend(DQ, TID, 0);
  else if (in_which == 2) { IR_ST64(DQ + P_OFF_items_tail, 0); got = _dispatch_queue_try_reserve_sync_width(DQ); }
  else if (in_which == 3) got = _dispatch_queue_try_acquire_async(DQ);
  else { IR_ST32(DQ + P_OFF_priority, 0); _dispatch_queue_wakeup(DQ, 0, (u32)(P_WAKEUP_MAKE_DIRTY | P_WAKEUP_CONSUME_2), 1); got = pushes != 0;
         ASSERT(IR_LD64(ST_ADDR) & DIRTY, "a wakeup of a suspended queue still records DIRTY for the resume"); }
  ASSERT(!got, "SUSPENDED: nothing acquires, and no wakeup enqueues, a suspended or inactive queue");
  ASSERT((IR_LD64(ST_ADDR) & SUSPEND_BITS) == (in_state & SUSPEND_BITS), "the suspension bits are untouched");
  WITNESS_IF(in_which == 0, "drain lock refused"); WITNESS_IF(in_which == 4, "wakeup does not enqueue");
}
#endif

#ifdef H_BC_SUSP
/* the end of a barrier / serial sync item on a SUSPENDED queue with items queued (the item suspended its own queue): _dispatch_lane_barrier_complete must not hand
   the queue over to the next sync waiter or to queued readers; it only releases the lock (the resume will re-drive the queue) */
static int handoff_waiter, handoff_readers, class_complete; static u64 cc_target;
void _dispatch_lane_drain_barrier_waiter(u64 dq, u64 dc, u32 flags, u64 owned) { handoff_waiter++; }
void _dispatch_lane_drain_non_barriers(u64 dq, u64 dc, u32 flags) { handoff_readers++; }
void _dispatch_lane_class_barrier_complete(u64 dq, u32 qos, u32 flags, u64 target, u64 owned) { class_complete++; cc_target = target; }
u64 _dispatch_wait_for_enqueuer(u64 p) { return IR_LD64(p); }
static u64 in_head_flags;
void harness(void) {
  setup(); ASSUME(in_state >= NEEDS_ACTIVATION); ASSUME(OWNER(in_state) == TID && (in_state & IN_BARRIER));
  /* one item queued: a continuation whose flags (sync waiter / barrier / plain) are arbitrary */
  u64 dc = ir_bump(P_SZ_cont); SYM(in_head_flags); ASSUME(in_head_flags <= 0xfff); IR_ST64(dc + P_OFF_dc_flags, in_head_flags);
  IR_ST64(DQ + P_OFF_items_head, dc); IR_ST64(DQ + P_OFF_items_tail, dc);
  _dispatch_lane_barrier_complete(DQ, 0, 0);
  ASSERT(handoff_waiter == 0 && handoff_readers == 0, "SUSPENDED: completing an item on a suspended queue never hands the queue to a queued sync waiter or to queued readers");
  ASSERT(class_complete == 1 && cc_target == 0, "the lock is simply released (no target wakeup); resume re-drives the queue");
  WITNESS_REACHED("barrier completion on a suspended queue");
}
#endif
