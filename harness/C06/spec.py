import sys, os
sys.path.insert(0, os.path.join(os.path.dirname(__file__), '..', 'common'))
from vlib import H
from st_probes import ST_PROBES
from hist_spec import HH
from seqs import seqs, balanced_suspend
PR = dict(ST_PROBES); PR.update({'SZ_vtable': 'sizeof(struct dispatch_lane_vtable_s)', 'OFF_vt_wakeup': 'offsetof(struct dispatch_lane_vtable_s, _os_obj_vtable.dq_wakeup)', 'OFF_vt_push': 'offsetof(struct dispatch_lane_vtable_s, _os_obj_vtable.dq_push)',
   'OFF_vt_activate': 'offsetof(struct dispatch_lane_vtable_s, _os_obj_vtable.dq_activate)', 'OFF_vt_type': 'offsetof(struct dispatch_lane_vtable_s, _os_obj_vtable.do_type)', 'LANE_TYPE': 'DISPATCH_QUEUE_SERIAL_TYPE'})
STUBS = ['_dispatch_bug', '_dispatch_set_basepri_override_qos', 'libdispatch_tsd_init', '_dispatch_unfair_lock_lock_slow', '_dispatch_unfair_lock_unlock_slow', '_dispatch_retain_2', '_dispatch_release_2',
         '_dispatch_release_2_tailcall', '_dispatch_lane_wakeup', '_dispatch_lane_activate', '_dispatch_queue_push_queue', '_dispatch_queue_wakeup_with_override_slow']
def S(name, define, units, note, **kw):
    return H(name, 'h_susp.c', units + ['__dispatch_tsd', '_dispatch_lane_wakeup', '_dispatch_lane_activate'], stubs=STUBS, nt=1, heap=1024, defines=['-D' + define, '-DST_INTERFERE=0'], note=note, unwind=3, probes=PR, timeout=300,
             icall_only=['_dispatch_lane_wakeup', '_dispatch_lane_activate'], **kw)
HARNESSES = [
    S('S_suspend', 'H_SUSPEND', ['_dispatch_lane_suspend'], 'real _dispatch_lane_suspend + _suspend_slow: all states x side counts {0,32,64,96}: total count +1, invariant kept, <=2 interferences'),
    S('S_resume', 'H_RESUME', ['_dispatch_lane_resume'], 'real _dispatch_lane_resume + _resume_slow: all states with count >= 1: total count -1; resume to zero restarts the queue'),
    S('S_suspended_blocks', 'H_BLOCKED', ['_dispatch_queue_drain_try_lock', '_dispatch_queue_try_acquire_barrier_sync_and_suspend', '_dispatch_queue_try_reserve_sync_width', '_dispatch_queue_try_acquire_async', '_dispatch_queue_wakeup'],
      'suspended/inactive word: all four acquisitions fail and wakeup does not enqueue'),
    H('S_barrier_complete_suspended', 'h_susp.c', ['_dispatch_lane_barrier_complete', '__dispatch_tsd', '_dispatch_lane_wakeup', '_dispatch_lane_activate'],
      stubs=STUBS + ['_dispatch_lane_drain_barrier_waiter', '_dispatch_lane_drain_non_barriers', '_dispatch_lane_class_barrier_complete', '_dispatch_wait_for_enqueuer'], nt=1, heap=1024,
      defines=['-DH_BC_SUSP', '-DST_INTERFERE=0'], unwind=3, probes=PR, timeout=300, icall_only=['_dispatch_lane_wakeup', '_dispatch_lane_activate'],
      note='real _dispatch_lane_barrier_complete on a suspended, owner-held queue with one queued item of arbitrary kind: no hand-off'),
]
def _ok(x, inactive=False):
    # resume only when suspended; at most ONE synchronous caller blocked at a time (the sequential model wakes sleepers last-in-first-out, see DESIGN 2.3)
    d = 0; blocked_sync = 0; act = not inactive
    for c in x:
        if c == 'S': d += 1
        elif c == 'r':
            if d == 0: return False
            d -= 1
            if d == 0 and act: blocked_sync = 0
        elif c == 'A':
            act = True
            if d == 0: blocked_sync = 0
        elif c in 'sBw' and (d > 0 or not act):
            blocked_sync += 1
            if blocked_sync > 1: return False
    if d != 0: return False
    if inactive and 'A' not in x: return False
    return True
_q = [x for x in seqs('asSrR', 4, minlen=2, need='Sr') if _ok(x) and any(c in x for c in 'as')]
_qi = [x for x in seqs('asAR', 3, minlen=2, need='A') if x.count('A') == 1 and any(c in x for c in 'as') and _ok(x, True)]
_t = [x for x in seqs('asSrRB', 5, minlen=5, need='Sr') if _ok(x) and any(c in x for c in 'asB')]
_pre = [x for x in seqs('Sra', 4, minlen=2, need='S') if balanced_suspend(x, 70) and x.count('S') >= 1]
HARNESSES += [HH(x) for x in _q] + [HH(x, inactive=True) for x in _qi] + [HH(x, conc=True) for x in _q if len(x) <= 3]
HARNESSES += [HH(x, extra=['-DPRESUSPEND=%d' % k], name_extra='_pre%d' % k) for x in _pre for k in (61, 62, 63)]
HARNESSES += [HH(x, tiers=('thorough',)) for x in _t]
ASSUMPTIONS = ['tier S: abstract suspend count = inline counter + side counter; representation invariant HAS_SIDE bit <=> side counter > 0, side counter in {0,32,64,96}',
               'the side lock is uncontended (its slow path is asserted unreachable); interference on the state word keeps the side-count bit',
               'resume lemma: count >= 1 and not inactive (over-resume and resume-before-activate are the documented crashes)']
LEVEL_TEXT = 'Tier S: dispatch_suspend / dispatch_resume arithmetic over all state words x side counts {0,32,64,96}: total count (inline + side counter) changes by exactly one, the side-count bit stays consistent, resume to zero restarts the queue (wakeup, lock transfer, or DIRTY left for the current holder); a suspended/inactive word refuses every acquisition and is never enqueued; barrier completion on a suspended queue hands off to nobody. Tier H: all histories up to length 4 (thorough 5) over {suspend, resume, activate, async, sync, worker} incl. queues created inactive and inline counters pre-loaded at 61..63 so that the side counter is crossed; nothing starts while suspended/inactive, everything pending runs after the last resume/activate, count bookkeeping checked at the end.'
LEVEL_NOTE = 'Side lock uncontended; at most one synchronous caller blocked at a time (sequential model wakes sleepers LIFO); the one item a serial queue has already committed to when suspended from another thread cannot arise in a sequential history.'
