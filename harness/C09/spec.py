import sys, os
sys.path.insert(0, os.path.join(os.path.dirname(__file__), '..', 'common'))
from vlib import H
from st_probes import ST_PROBES
PR = dict(ST_PROBES); PR.update({'ONCE_DONE': 'DLOCK_ONCE_DONE', 'ONCE_UNLOCKED': 'DLOCK_ONCE_UNLOCKED', 'WAITERS_BIT': 'DLOCK_WAITERS_BIT'})
STUBS = ['_dispatch_bug', 'libdispatch_tsd_init', '_dispatch_client_callout', '_dispatch_futex_wait', '_dispatch_futex_wake']
PROBE_TU = (('vp_once_probe.c', '#include <dispatch/dispatch.h>\nvoid vp_client_once(dispatch_once_t *p, void *c, dispatch_function_t f) { dispatch_once_f(p, c, f); }\n'),)
def S(name, define, units, note, **kw):
    return H(name, 'h_once.c', units + ['__dispatch_tsd'], stubs=kw.pop('stubs', STUBS), nt=1, heap=512, defines=['-D' + define], note=note, unwind=5, probes=PR, timeout=300, **kw)
HARNESSES = [
    S('S_once_f', 'H_ONCE', ['dispatch_once_f'], 'real dispatch_once_f + gate tryenter/callout/broadcast + _dispatch_once_wait: all legal gate words, <=2 interfering updates by other callers, <=3 sleeps'),
    S('S_once_wait', 'H_WAIT', ['_dispatch_once_wait'], 'real _dispatch_once_wait: returns only on DONE; sleeps only with the waiters bit published'),
    S('S_inline_fastpath', 'H_FAST', ['vp_client_once'], 'inline _dispatch_once_f from dispatch/once.h compiled as a client would: all 2^64 predicate values', stubs=['dispatch_once_f'], extra_tus=PROBE_TU),
]
def Q(name, defs, note):
    return H(name, 'h_once_q.c', ['dispatch_once_f', '__dispatch_tsd'], stubs=STUBS, blocking=['_dispatch_futex_wait'], visible=['_dispatch_futex_wake', '_dispatch_client_callout'], seq=True, nt=4, heap=256,
             defines=['-DQ_MAXB=6'] + defs, unwind=5, probes=PR, timeout=1500, witness_any=True, note=note)
HARNESSES += [Q('Q_once_3', ['-DQ_ROUNDS=2'], 'REAL interleavings (tier Q): 3 callers of dispatch_once_f on one predicate, futex sleeps until woken, 2 rounds x 3 threads x <=6 steps + deterministic tail')]
HARNESSES[-1].tiers = ('quick', 'thorough')
HARNESSES += [Q('Q_once_3_r3', ['-DQ_ROUNDS=3'], 'the same with 3 rounds')]; HARNESSES[-1].tiers = ('thorough',); HARNESSES[-1].timeout = 3000
ASSUMPTIONS = ['gate words: 0, ~0 (DONE), or a thread id (30 bits, != caller) optionally with the waiters bit; other callers may move the word along the gate protocol (enter from 0, add waiters bit, publish DONE) at most twice',
               'futex wait returns at arbitrary moments (spurious wake-ups included) and the owner may have published DONE meanwhile; at most 3 sleeps',
               'the quiescent-counter variant of dispatch_once is not compiled on this platform']
LEVEL_TEXT = 'Tier S over all legal gate words with <=2 interfering updates along the gate protocol and <=3 sleeps: the initialiser runs only while the caller owns the gate obtained by a CAS from 0, at most once; DONE is published with release; sleepers are woken (all of them) exactly when the waiters bit was set; non-owners return only on DONE; every sleep is on a value carrying the waiters bit; the inline fast path of dispatch/once.h (compiled as a client would) skips the call exactly for the DONE value the library publishes. Tier Q (real interleavings): three callers of the real dispatch_once_f on one predicate, context switch possible before every atomic access, before the initialiser and before every futex call; futex wait compares once on entry and then sleeps until a wake reaches it: the initialiser runs exactly once, no call returns before it has completed, every caller returns (nobody left asleep), the gate ends DONE.'
LEVEL_NOTE = 'Gate protocol envelope for other threads as documented in lock.h; futex may return spuriously; quiescent-counter variant not compiled on this platform. Tier Q is bounded to 2 (thorough 3) rounds x 3 threads x <=6 visible steps.'
ASSUMPTIONS = list(ASSUMPTIONS) + ['tier Q: sequentialised model threads over the real code (every translated function resumable; a context switch is possible before every atomic access and every blocking / kernel call); the scheduler runs a bounded number of rounds in which each unfinished thread executes a solver-chosen number of visible steps, followed by a deterministic tail; interleavings needing more context switches than rounds x threads are outside']
