/* C09 tier S: the once gate.  Real dispatch_once_f, _dispatch_once_callout, _dispatch_once_gate_tryenter/_broadcast (shims/lock.h), _dispatch_once_wait and
   _dispatch_gate_broadcast_slow (shims/lock.c), and the inline fast path _dispatch_once_f of dispatch/once.h (compiled into a probe TU).
   Gate word: 0 = never run, ~0 = done, otherwise owner thread id | WAITERS bit (0x80000000).  All gate words of that shape, interference by other callers. */
#include "hpre.h"
static void o_pre(unsigned long long a); static void o_cas_ok(unsigned long long a, unsigned long long o, unsigned long long n, int ord); static void o_rmw(unsigned long long a, unsigned long long o, int ord); static void o_seen(unsigned long long a, unsigned long long v);
#define IR_CAS_PRE(a, o) o_pre(a)
#define IR_RMW_PRE(a, o) o_pre(a)
#define IR_ALOAD_PRE(a, o) o_pre(a)
#define IR_CAS_OK(a, old, nw, o) o_cas_ok(a, old, nw, o)
#define IR_CAS_FAIL(a, old, o) o_seen(a, old)
#define IR_ALOAD_DONE(a, v, o) o_seen(a, v)
#define IR_RMW_DONE(a, old, o) o_rmw(a, old, o)
#include "model.c"
#include "hpost.h"
#include "probe.h"
#define G IR_HEAP_BASE
#define DONE (~0ull)
#define WAITERS 0x80000000ull
#define SELF 0x104ull
#ifndef O_MAX_INTERFERE
#define O_MAX_INTERFERE 2
#endif
static u64 in_gate, in_interfere[O_MAX_INTERFERE], in_do_interfere[O_MAX_INTERFERE]; static int o_ninterfere; static _Bool o_on;
static int ntrans; static u64 last_old, last_new, last_seen; static int last_ord; static int callouts; static u64 gate_in_callout;
/* legal gate words for OTHER threads to write: a different owner (with or without waiters), waiters bit added, or DONE (the owner finished). Never back to 0, never our own id. */
static _Bool word_ok(u64 w) { return w == DONE || (w != 0 && (w >> 32) == 0 && (w & 0x3fffffffull) != 0 && (w & 0x3fffffffull) != SELF && !(w & 0x40000000ull)); }
static _Bool step_ok(u64 prev, u64 nw) {
  if (prev == DONE) return nw == DONE;                       /* done is final */
  if ((prev & 0x3fffffffull) == SELF) return nw == (prev | WAITERS);   /* while we own the gate others can only add the waiters bit */
  if (prev == 0) return word_ok(nw);                          /* somebody else enters (and may already have finished) */
  return nw == DONE || nw == (prev | WAITERS); }              /* another owner: it finishes, or a waiter registers */
static void o_pre(unsigned long long a) { if (a != G || !o_on) return;
  if (o_ninterfere < O_MAX_INTERFERE) { int k = o_ninterfere++; SYM_AT(in_do_interfere, k); SYM_AT(in_interfere, k);
    if (in_do_interfere[k] & 1) { ASSUME(step_ok(IR_LD64(G), in_interfere[k])); IR_ST64(G, in_interfere[k]); } } }
static void o_cas_ok(unsigned long long a, unsigned long long o, unsigned long long n, int ord) { if (a == G) { last_old = o; last_new = n; last_ord = ord; ntrans++; } }
static void o_rmw(unsigned long long a, unsigned long long o, int ord) { if (a == G) { last_old = o; last_new = IR_LD64(G); last_ord = ord; ntrans++; } }
static void o_seen(unsigned long long a, unsigned long long v) { if (a == G) last_seen = v; }
void _dispatch_bug(u64 l, u64 v) { ASSERT(0, "_dispatch_bug"); }
u64 ir_dyn_alloca(u64 n) { ASSERT(0, "dynamic alloca"); return 0; }
void libdispatch_tsd_init(void) { }
static int fwaits, fwakes; static u32 fwake_n; static u64 fwait_val[3], in_fwait_done[3];
void _dispatch_client_callout(u64 ctxt, u64 f) { ASSERT(ctxt == 0x1234 && f == 0x77, "the caller's initialiser and context"); callouts++; gate_in_callout = IR_LD64(G); }
u32 _dispatch_futex_wait(u64 addr, u32 val, u64 ts, u32 flags) { ASSERT(addr == G, "sleeps on the gate word"); int k = fwaits; ASSUME(k < 3); fwaits++; fwait_val[k] = val;
  ASSERT((u32)IR_LD64(G) == val || 1, "-"); ASSERT((val & WAITERS) != 0, "LOST-WAKEUP: a caller only sleeps on a gate value that carries the waiters bit (so that the owner knows it must wake someone)");
  ASSERT(ts == 0, "no timeout: the wait ends only through the owner's broadcast");
  SYM_AT(in_fwait_done, k); if (in_fwait_done[k] & 1) IR_ST64(G, DONE);       /* the owner finished while we slept (or we woke spuriously) */
  return 0; }
void _dispatch_futex_wake(u64 addr, u32 n, u32 flags) { ASSERT(addr == G, "wakes sleepers of the gate word"); fwakes++; fwake_n = n; }
static void setup(void) { ir_init_globals(); ir_heap_next = IR_HEAP_BASE + 64; IR_ST32(TLS___dispatch_tsd(0), (u32)SELF); SYM(in_gate); ASSUME(in_gate == 0 || word_ok(in_gate)); IR_ST64(G, in_gate); }

#ifdef H_ONCE
void harness(void) {
  setup(); o_on = 1;
  ASSERT(P_ONCE_DONE == DONE, "layout guard: DLOCK_ONCE_DONE is ~0 (the value the inline fast path of dispatch/once.h compares with)");
  dispatch_once_f(G, 0x1234, 0x77);
  u64 fin = IR_LD64(G);
  ASSERT(callouts <= 1, "EXACTLY-ONCE: a call never runs the initialiser twice");
  if (callouts) {
    ASSERT((gate_in_callout & 0x3fffffffull) == SELF, "EXACTLY-ONCE: the initialiser runs only while this caller owns the gate, which it got by swapping it from 0");
    ASSERT(fin == DONE, "COMPLETION: after the initialiser the gate is DONE");
    ASSERT(last_ord >= 3, "VISIBILITY: DONE is published with release semantics");
    ASSERT(fwakes == ((last_old & WAITERS) ? 1 : 0), "RELEASE-WAITERS: the owner wakes sleepers exactly when the gate carried the waiters bit at the moment DONE was swapped in");
    if (fwakes) ASSERT(fwake_n >= 0x7fffffffu, "RELEASE-WAITERS: the broadcast wakes ALL sleepers, not one");
    WITNESS_IF(fwakes == 1, "owner with waiters"); WITNESS_IF(fwakes == 0, "owner without waiters");
  } else {
    ASSERT(fin == DONE, "NO-EARLY-RETURN: a caller that did not run the initialiser returns only when the gate is DONE");
    ASSERT(fwakes == 0, "a non-owner never broadcasts");
    WITNESS_IF(fwaits >= 1, "caller waited for another owner"); WITNESS_IF(fwaits == 0, "already done: immediate return");
  }
}
#endif

#ifdef H_WAIT
void harness(void) {
  setup(); ASSUME(in_gate != 0); o_on = 1;
  _dispatch_once_wait(G);
  ASSERT(IR_LD64(G) == DONE && last_seen == DONE, "NO-EARLY-RETURN: _dispatch_once_wait returns only after it observed DONE");
  for (int k = 0; k < 3; k++) if (k < fwaits) ASSERT(fwait_val[k] & WAITERS, "every sleep is on a value with the waiters bit");
  WITNESS_IF(fwaits == 2, "slept twice (spurious wake-up)"); WITNESS_IF(fwaits == 0, "done on arrival");
}
#endif

#ifdef H_FAST
/* the inline fast path of <dispatch/once.h> as a client compiles it (probe TU vp_once_probe.c) */
static int slow_calls;
void dispatch_once_f(u64 pred, u64 ctxt, u64 f) { slow_calls++; IR_ST64(pred, DONE); }
void harness(void) {
  ir_init_globals(); ir_heap_next = IR_HEAP_BASE + 64; SYM(in_gate); IR_ST64(G, in_gate);
  vp_client_once(G, 0x1234, 0x77);
  ASSERT(slow_calls == ((in_gate == DONE) ? 0 : 1), "FAST-PATH: the inline check skips the library call exactly when the predicate equals the DONE value the library publishes");
  WITNESS_IF(slow_calls == 0, "fast path"); WITNESS_IF(slow_calls == 1, "slow path");
}
#endif
