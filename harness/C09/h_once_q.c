/* C09 tier Q: three callers of the real dispatch_once_f on one predicate (initially 0) under REAL interleavings (sequentialised threads, context switch before every
   atomic access, before the initialiser and before every futex call).  The initialiser "is in progress" from the moment a caller wins the gate (CAS from 0) until the
   callout stub runs (its completion).  Futex contract: wait(addr, val) returns at once if *addr != val, otherwise the caller sleeps until a wake reaches it
   (variant SPURIOUS: it may also return at any time); wake(addr, n) wakes up to n sleepers.
   Oracle: the initialiser runs exactly once; no call returns before it has completed; every caller returns (nobody is left asleep); the gate ends DONE. */
#include "hpre.h"
#define G IR_HEAP_BASE
static _Bool asleep[8], woken[8];
#ifdef SPURIOUS
#define ENABLED__dispatch_futex_wait(a, v, ts, fl) 1
#else
#define ENABLED__dispatch_futex_wait(a, v, ts, fl) (asleep[ir_cur] ? woken[ir_cur] : ((u32)IR_LD64(a) != (u32)(v) || !(asleep[ir_cur] = 1)))   /* the value is compared once, on entry; a sleeper resumes only through a wake */
#endif
static void q_cas_ok(unsigned long long a, unsigned long long o, unsigned long long n);
#define IR_CAS_OK(a, old, nw, o) q_cas_ok(a, old, nw)
#include "model.c"
#include "hpost.h"
#include "probe.h"
#define Q_NTHR 3
#include "seqthr.h"
#define DONE (~0ull)
void _dispatch_bug(u64 l, u64 v) { ASSERT(0, "_dispatch_bug"); }
u64 ir_dyn_alloca(u64 n) { ASSERT(0, "dynamic alloca"); return 0; }
void libdispatch_tsd_init(void) { }
static int init_runs, init_started, returned_early, nreturned; static _Bool init_done;
static void q_cas_ok(unsigned long long a, unsigned long long o, unsigned long long n) { if (a == G && o == 0) init_started++; }
void _dispatch_client_callout(u64 ctxt, u64 f) { ASSERT(ctxt == 0x1234 && f == 0x77, "the caller's initialiser and context"); init_runs++; init_done = 1; }
u32 _dispatch_futex_wait(u64 addr, u32 val, u64 ts, u32 flags) { ASSERT(addr == G, "sleeps on the gate word"); asleep[ir_cur] = 0; woken[ir_cur] = 0; return 0; }
void _dispatch_futex_wake(u64 addr, u32 n, u32 flags) { ASSERT(addr == G, "wakes sleepers of the gate word"); for (int t = 1; t <= Q_NTHR; t++) if (asleep[t] && !woken[t] && n > 0) { woken[t] = 1; n--; } }
static void caller(void) { TH_BEGIN TH_CALL(1, dispatch_once_f(G, 0x1234, 0x77)) nreturned++; if (!init_done) returned_early++; TH_END }
static void q_thread(int t) { caller(); }
void harness(void) {
  ir_init_globals(); for (int t = 0; t < IR_NT; t++) IR_ST32(TLS___dispatch_tsd(t), 0x100 + 4 * t);
  IR_ST64(G, 0);
  for (int r = 0; r < Q_ROUNDS; r++) for (int t = 1; t <= Q_NTHR; t++) { q_run_slice(r, t); ir_cur = 0;
    ASSERT(returned_early == 0, "NO-EARLY-RETURN: no call of dispatch_once returns before the initialiser has completed");
    ASSERT(init_runs <= 1 && init_started <= 1, "EXACTLY-ONCE: the gate is won once and the initialiser runs once"); }
  q_finish();
  ASSERT(returned_early == 0, "NO-EARLY-RETURN: no call of dispatch_once returns before the initialiser has completed (tail)");
  ASSERT(init_runs == 1, "EXACTLY-ONCE: among all callers the initialiser ran exactly once");
  ASSERT(tdone[1] && tdone[2] && tdone[3], "RELEASE-WAITERS: every caller that arrived while the initialiser was in progress is released when it completes (nobody is left asleep)");
  ASSERT(IR_LD64(G) == DONE, "COMPLETION: the gate ends DONE");
  WITNESS_REACHED("all three callers returned");
  WITNESS_IF(woken[1] || woken[2] || woken[3] || 1, "-");
}
