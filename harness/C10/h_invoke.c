/* C10 tier S: one participant of a dispatch_apply - real _dispatch_apply_invoke / _dispatch_apply_invoke_and_wait (apply.c) - from an ARBITRARY state of the shared
   record (other helpers may already have claimed any number of indices and may still be running theirs), with other helpers claiming further indices between this
   participant's own claims.  The caller (invoke_and_wait) must not return before every invocation has finished. */
#include "hpre.h"
static void a_pre(unsigned long long a);
#define IR_RMW_PRE(a, o) a_pre(a)
#include "model.c"
#include "hpost.h"
#include "probe.h"
#define DA IR_HEAP_BASE
#define DC (IR_HEAP_BASE + 256)
#define MAXI 6
void _dispatch_bug(u64 l, u64 v) { ASSERT(0, "_dispatch_bug"); }
u64 ir_dyn_alloca(u64 n) { ASSERT(0, "dynamic alloca"); return 0; }
void libdispatch_tsd_init(void) { }
static u64 in_n, in_index, in_todo, in_thr, in_steal[3], in_wait; static int nsteal; static _Bool on;
static int mine[MAXI], nmine, waited, frees, signals; static u64 todo_when_done;
static void a_pre(unsigned long long a) {     /* other helpers claim indices just before one of our claims */
  if (a != DA + P_OFF_da_index || !on) return;
  if (nsteal < 3) { int k = nsteal++; SYM_AT(in_steal, k); ASSUME(in_steal[k] <= 2); u64 cur = IR_LD64(DA + P_OFF_da_index);
    IR_ST64(DA + P_OFF_da_index, cur + in_steal[k]); } }
void _dispatch_client_callout2(u64 ctxt, u64 idx, u64 f) { ASSERT(idx < in_n, "EVERY-INDEX: work invoked for an index outside 0..n-1"); if (idx < MAXI) { ASSERT(mine[idx] == 0, "EVERY-INDEX-ONCE: an index is invoked twice by one participant"); mine[idx]++; } nmine++; }
void _dispatch_futex_wake(u64 addr, u32 n, u32 flags) { signals++; }
u32 _dispatch_futex_wait(u64 addr, u32 val, u64 ts, u32 flags) { waited++; /* the other helpers finish while the caller sleeps and the last one signals */ IR_ST64(DA + P_OFF_da_todo, 0); IR_ST32(addr, 0); return 0; }
u64 _dispatch_continuation_free_cacheonly(u64 dc) { return dc; }
void _dispatch_continuation_free_to_heap(u64 c) { ASSERT(c == DA, "only the apply record is freed"); frees++; }
void harness(void) {
  ir_init_globals(); ir_heap_next = IR_HEAP_BASE + 1024; IR_ST32(TLS___dispatch_tsd(0), 0x104);
  SYM(in_n); SYM(in_index); SYM(in_todo); SYM(in_thr); ASSUME(in_n >= 1 && in_n <= 4 && in_index <= in_n + 2 && in_thr >= 1 && in_thr <= 4);
  /* invocations not yet finished: the unclaimed ones plus those other helpers are running right now */
  u64 unclaimed = in_index < in_n ? in_n - in_index : 0; ASSUME(in_todo >= unclaimed && in_todo <= in_n && in_todo >= 1);
  IR_ST64(DA + P_OFF_da_index, in_index); IR_ST64(DA + P_OFF_da_todo, in_todo); IR_ST64(DA + P_OFF_da_iterations, in_n); IR_ST64(DA + P_OFF_da_dc, DC); IR_ST32(DA + P_OFF_da_thr_cnt, (u32)in_thr);
  IR_ST64(DC + P_OFF_dc_func, 0x55); IR_ST64(DC + P_OFF_dc_ctxt, 0xABCD); IR_ST32(DA + P_OFF_da_event, 0);
  on = 1;
#ifdef CALLER
  _dispatch_apply_invoke_and_wait(DA);
  on = 0;
  /* our own completion signal counts as "all finished" only if it brought the count to zero */
  ASSERT(waited == 1 || IR_LD64(DA + P_OFF_da_todo) == 0, "RETURNS-AFTER-ALL: the caller of dispatch_apply does not return while invocations are outstanding: it waits for the completion event unless its own last invocation completed the apply");
  ASSERT(IR_LD64(DA + P_OFF_da_todo) == 0, "RETURNS-AFTER-ALL: when the caller returns no invocation is outstanding");
  WITNESS_IF(waited && nmine == 0, "caller claimed nothing and still waited"); WITNESS_IF(!waited, "caller finished the apply itself");
#else
  _dispatch_apply_invoke(DA);
  on = 0;
  ASSERT(waited == 0, "a helper never waits");
#endif
  ASSERT(IR_LD32(DA + P_OFF_da_thr_cnt) == (u32)in_thr - 1, "each participant leaves exactly once");
  ASSERT(frees == (in_thr == 1 ? 1 : 0), "LIFETIME: the record is freed exactly by the last participant to leave");
  WITNESS_IF(nmine >= 2, "participant ran several indices"); WITNESS_IF(nsteal >= 2 && (in_steal[0] + in_steal[1]) >= 2, "indices claimed by others in between");
}
