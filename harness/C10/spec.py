import sys, os
sys.path.insert(0, os.path.join(os.path.dirname(__file__), '..', 'common'))
from vlib import H
from st_probes import HIST_PROBES
import hist_spec as HS
PR = dict(HIST_PROBES); PR.update({'SZ_rootq': 'sizeof(struct dispatch_queue_global_s)'})
ENT = ['dispatch_apply_f', 'dispatch_queue_create', '_dispatch_continuation_pop', '__dispatch_tsd', '_dispatch_root_queues']
STUBS = [x for x in HS.H_STUBS] + ['_dispatch_dispose', '_dispatch_xref_dispose', '_dispatch_qos_max_parallelism', '_dispatch_root_queue_poke', '_dispatch_root_queue_push_inline', '_dispatch_client_callout2']
ICALL = HS.H_ICALL + ['_dispatch_apply_invoke', '_dispatch_apply_redirect_invoke', '_dispatch_apply_serial', '_dispatch_apply_redirect', '_dispatch_apply_invoke_and_wait']
TN = {0: 'root', 1: 'serial', 2: 'conc', 3: 'conc_on_serial', 4: 'conc_on_narrow'}
def A(n, thr, target, helper_at=-1, cw=2, tiers=('quick', 'thorough'), cw2=2):
    return H('A_%s%s_n%d_t%d_h%s' % (TN[target], (('w%d' % cw) if target >= 2 else '') + (('v%d' % cw2) if target == 4 else ''), n, thr, 'x' if helper_at < 0 else str(helper_at)), 'h_apply.c', ENT, stubs=STUBS, noglobal=['_dispatch_queue_attrs', '_dispatch_mgr_q'], icall_only=ICALL,
             nt=3, heap=4096, defines=['-DNITER=%d' % n, '-DTHR=%d' % thr, '-DTARGET=%d' % target, '-DHELPER_AT=%d' % helper_at, '-DCW=%d' % cw, '-DCW2=%d' % cw2], probes=PR, unwind=4,
             unwindset=HS.UNWINDSET + ',_dispatch_root_queue_push_inline.0:6,harness.7:10,_dispatch_apply_f.0:6,_dispatch_apply_invoke2.0:10,_dispatch_apply_serial.0:10', timeout=600, tiers=tiers, witness_any=True, symbolic=False, mem_gb=16,
             note='dispatch_apply_f(%d) on %s, parallelism %d, first helper starts %s' % (n, TN[target] + (' width %d' % cw if target >= 2 else ''), thr, 'after the caller finished claiming' if helper_at < 0 else 'during the caller\'s invocation %d' % helper_at))
HARNESSES = []
for n in (0, 1, 2, 3, 4):
    for thr in (1, 2, 3):
        for ha in (-1, 0, 1):
            if ha >= n and ha >= 0: continue
            if thr == 1 and ha >= 0: continue
            HARNESSES.append(A(n, thr, 0, ha))
            HARNESSES.append(A(n, thr, 2, ha, cw=2))
        HARNESSES.append(A(n, thr, 1))
HARNESSES += [A(n, thr, 3, cw=cw) for n in (1, 3) for thr in (2, 3) for cw in (2, 4)]
HARNESSES += [A(n, thr, 4, ha, cw=cw, cw2=cw2) for n in (3, 4) for thr in (3, 4) for (cw, cw2) in ((4, 2), (3, 2), (4, 3)) for ha in (-1, 1)]
HARNESSES += [A(5, 4, 0, 2, tiers=('thorough',)), A(6, 3, 2, 1, cw=3, tiers=('thorough',)), A(6, 4, 2, 0, cw=2, tiers=('thorough',))]
PR3 = dict(PR); PR3.update({'OFF_da_index': 'offsetof(struct dispatch_apply_s, da_index)', 'OFF_da_todo': 'offsetof(struct dispatch_apply_s, da_todo)', 'OFF_da_iterations': 'offsetof(struct dispatch_apply_s, da_iterations)',
  'OFF_da_dc': 'offsetof(struct dispatch_apply_s, da_dc)', 'OFF_da_thr_cnt': 'offsetof(struct dispatch_apply_s, da_thr_cnt)', 'OFF_da_event': 'offsetof(struct dispatch_apply_s, da_event)', 'OFF_da_flags': 'offsetof(struct dispatch_apply_s, da_flags)'})
def I(name, units, caller):
    return H(name, 'h_invoke.c', units + ['__dispatch_tsd'], stubs=['_dispatch_bug', 'libdispatch_tsd_init', '_dispatch_client_callout2', '_dispatch_futex_wake', '_dispatch_futex_wait', '_dispatch_continuation_free_cacheonly', '_dispatch_continuation_free_to_heap'],
             nt=1, heap=2048, defines=['-DCALLER'] if caller else [], unwind=8, probes=PR3, timeout=600,
             note='real %s from an arbitrary apply record (n<=4, any progress of other helpers), <=3 interfering claims by others' % units[0])
HARNESSES += [I('S_invoke_and_wait', ['_dispatch_apply_invoke_and_wait'], True), I('S_invoke_helper', ['_dispatch_apply_invoke'], False)]
ASSUMPTIONS = ['n <= 6 iterations, reported parallelism <= 4; targets: default global queue, a serial queue, a concurrent queue whose width is set to 2 or 3 (partial width grants)',
               'helper scheduling: one pool worker, which starts its first helper either during a chosen invocation of the caller or only when the caller waits; histories are otherwise sequential',
               'nested dispatch_apply and DISPATCH_APPLY_AUTO are not covered']
LEVEL_TEXT = 'Tier H: dispatch_apply_f through the real apply.c for n in 0..4 (thorough 6), reported parallelism 1..3, on the default global queue, a serial queue and a width-2 concurrent queue, with the pool worker starting its first helper during a chosen invocation of the caller or only when the caller waits: every index exactly once, no other index, returns after all, serial order, reserved width given back and never exceeded by the number of participants. Tier S: one participant (_dispatch_apply_invoke / _invoke_and_wait) from an arbitrary state of the shared record with other helpers claiming indices in between: claims distinct and in range, the caller never returns while invocations are outstanding, the record is freed by the last participant. Also a concurrent queue targeting a NARROWER concurrent queue (partial width grant below: the excess reserved above is given back, both state words restored).'
LEVEL_NOTE = 'n <= 6; one pool worker; nested dispatch_apply and DISPATCH_APPLY_AUTO not covered.'
