/* C10: dispatch_apply_f through the real src/apply.c (+ the queue code it uses).  Per query (case split by the driver): iteration count NITER, the parallelism the
   system reports (THR), the target (root queue / serial queue / concurrent queue of width CW), and the moment at which a pool worker starts running a helper
   (HELPER_AT = the caller's k-th invocation, or never before the caller waits).  Helpers are the continuations apply pushes to the root queue; a pool worker
   (model thread 1) runs them with the real _dispatch_continuation_pop. */
#define NITEMS 2
#include "hist.h"
#ifndef CW2
#define CW2 2
#endif
#ifndef NITER
#define NITER 3
#endif
#ifndef THR
#define THR 2
#endif
#ifndef HELPER_AT
#define HELPER_AT -1
#endif
#define MAXI 8
static int calls[MAXI], ncalls, order[MAXI * 2], completed, caller_calls; static _Bool bad_index; static u64 da_addr; static int da_frees;
static u64 Q0, Q1;
static _Bool hist_other_callout(u64 ctxt, u64 f) { return 0; }
static void hist_item_body(int i) { }
static void hist_on_worker_start(void) { } static void hist_on_worker_end(void) { }
static _Bool hist_other_client_step(void) { return 0; }
u32 _dispatch_qos_max_parallelism(u32 qos, u64 flags) { return THR; }
void _dispatch_root_queue_poke(u64 dq, u32 n, u32 floor) { }
/* helper continuations pushed to the root queue: handed to the pool-worker list of hist.h */
void _dispatch_root_queue_push_inline(u64 rq, u64 head, u64 tail, u32 n) {
#if TARGET == 2 || TARGET == 3
  { u64 st = IR_LD64(Q0 + P_OFF_dq_state); u64 reserved = ((st >> 41) & 0x1fff) - (0x1000ull - CW);
    ASSERT(reserved <= CW, "WIDTH: dispatch_apply never reserves more reader width than the queue has");
    ASSERT((u64)n + 1 <= reserved, "WIDTH: the number of threads working on the apply (helpers + caller) is at most the reader width reserved on the queue (they behave as non-barrier items of that queue)"); }
#endif
  u64 dc = head; for (int k = 0; k < 4; k++) if ((u32)k < n) { ASSERT(dc != 0, "helper list shorter than announced"); _dispatch_root_queue_push(rq, dc, 0); dc = IR_LD64(dc + P_OFF_dc_next); }
}
#define FN_WORK 0x55ull
void _dispatch_client_callout2(u64 ctxt, u64 idx, u64 f) {
  ASSERT(f == FN_WORK && ctxt == 0xABCD, "the caller's work function and context");
  if (idx >= NITER || idx >= MAXI) { bad_index = 1; ASSERT(0, "EVERY-INDEX: work invoked for an index outside 0..n-1"); return; }
  int my = ncalls; if (ncalls < MAXI * 2) order[ncalls] = (int)idx; ncalls++;
  if (ir_cur == 0) { if (caller_calls == HELPER_AT && npend > 0) run_one_worker(0);    /* a pool worker starts a helper right now, while the caller is between two of its own invocations */
                     caller_calls++; }
  calls[idx]++; completed++; }
void _dispatch_continuation_free_to_heap(u64 c);   /* hist.h stub: no-op */
void harness(void) {
  ir_init_globals(); hist_threads_init(); ir_cur = 0;
#if TARGET == 0
  Q0 = G__dispatch_root_queues + 6ull * P_SZ_rootq;       /* the default-QoS global queue */
#elif TARGET == 1
  Q0 = dispatch_queue_create(0, 0);
#elif TARGET == 3   /* a concurrent queue of width CW whose target is a serial queue: the serial level grants no reader width, the apply falls back to the serial path - and must give back what it reserved above */
  Q1 = dispatch_queue_create(0, 0);
  Q0 = dispatch_queue_create(0, IR_NOGLOBAL); IR_ST16(Q0 + P_OFF_dq_width, CW); IR_ST64(Q0 + P_OFF_dq_state, (IR_LD64(Q0 + P_OFF_dq_state) & ~0x003ffe0000000000ull) | ((0x1000ull - CW) << 41));
  IR_ST64(Q0 + P_OFF_do_targetq, Q1);
#elif TARGET == 4   /* a concurrent queue of width CW whose target is a NARROWER concurrent queue (width CW2): the lower level grants only part of what the upper one reserved - the excess must be given back above */
  Q1 = dispatch_queue_create(0, IR_NOGLOBAL); IR_ST16(Q1 + P_OFF_dq_width, CW2); IR_ST64(Q1 + P_OFF_dq_state, (IR_LD64(Q1 + P_OFF_dq_state) & ~0x003ffe0000000000ull) | ((0x1000ull - CW2) << 41));
  Q0 = dispatch_queue_create(0, IR_NOGLOBAL); IR_ST16(Q0 + P_OFF_dq_width, CW); IR_ST64(Q0 + P_OFF_dq_state, (IR_LD64(Q0 + P_OFF_dq_state) & ~0x003ffe0000000000ull) | ((0x1000ull - CW) << 41));
  IR_ST64(Q0 + P_OFF_do_targetq, Q1);
#else
  Q0 = dispatch_queue_create(0, IR_NOGLOBAL); IR_ST16(Q0 + P_OFF_dq_width, CW); IR_ST64(Q0 + P_OFF_dq_state, (IR_LD64(Q0 + P_OFF_dq_state) & ~0x003ffe0000000000ull) | ((0x1000ull - CW) << 41));
#endif
  u64 st0 = (TARGET != 0) ? IR_LD64(Q0 + P_OFF_dq_state) : 0, st1 = (TARGET == 3 || TARGET == 4) ? IR_LD64(Q1 + P_OFF_dq_state) : 0;
  dispatch_apply_f(NITER, Q0, 0xABCD, FN_WORK);
  /* --- at the moment dispatch_apply returns --- */
  ASSERT(completed == NITER, "RETURNS-AFTER-ALL: dispatch_apply returns only after all n invocations have finished");
  for (int i = 0; i < MAXI; i++) ASSERT(calls[i] == (i < NITER ? 1 : 0), "EVERY-INDEX-ONCE: work is invoked exactly once for each index in 0..n-1 and for no other value");
#if TARGET == 1 || TARGET == 3
  for (int k = 0; k < MAXI; k++) if (k < NITER) ASSERT(order[k] == k, "SERIAL: on a serial queue the invocations are sequential in index order");
#endif
  /* helpers that did not run yet find nothing left to do */
  for (int r = 0; r < 6 && npend > 0; r++) run_one_worker(0);
  ASSERT(npend == 0, "harness bound: helpers still pending");
  for (int i = 0; i < MAXI; i++) ASSERT(calls[i] == (i < NITER ? 1 : 0), "EVERY-INDEX-ONCE: late helpers do not invoke anything again");
#if TARGET == 3 || TARGET == 4
  ASSERT(IR_LD64(Q1 + P_OFF_dq_state) == st1, "WIDTH: the target queue below is left as it was");
#endif
#if TARGET != 0
  ASSERT(IR_LD64(Q0 + P_OFF_dq_state) == st0, "WIDTH: the reader width reserved on the queue has been given back (state word as before)");
#endif
  WITNESS_REACHED("apply completed");
}
void _dispatch_dispose(u64 o) { ASSERT(0, "object disposed"); }
void _dispatch_xref_dispose(u64 o) { ASSERT(0, "xref dispose"); }
