import sys, os
sys.path.insert(0, os.path.join(os.path.dirname(__file__), '..', 'common'))
from vlib import H
from st_probes import ST_PROBES
PR = dict(ST_PROBES); PR.update({'OFF_dsema_value': 'offsetof(struct dispatch_semaphore_s, dsema_value)', 'OFF_dsema_sema': 'offsetof(struct dispatch_semaphore_s, dsema_sema)', 'OFF_dsema_orig': 'offsetof(struct dispatch_semaphore_s, dsema_orig)'})
STUBS = ['_dispatch_bug', 'libdispatch_tsd_init', '__errno_location', '_dispatch_sema4_create_slow', '_dispatch_sema4_init', '_dispatch_sema4_signal', '_dispatch_sema4_wait', '_dispatch_sema4_timedwait']
def S(name, define, units, note, **kw):
    return H(name, 'h_sema.c', units + ['__dispatch_tsd'], stubs=STUBS, nt=1, heap=1024, defines=['-D' + define], note=note, unwind=5, probes=PR, timeout=300, **kw)
HARNESSES = [
    S('S_signal', 'H_SIGNAL', ['dispatch_semaphore_signal'], 'real dispatch_semaphore_signal (+_signal_slow): all 2^64 values, <=2 interfering changes of the value'),
    S('S_wait', 'H_WAIT', ['dispatch_semaphore_wait'], 'real dispatch_semaphore_wait + _dispatch_semaphore_wait_slow: all values x all timeouts x arbitrary kernel answers, <=2 interferences'),
]
HARNESSES.append(H('Q_sema_2w2s', 'h_sema_q.c', ['dispatch_semaphore_wait', 'dispatch_semaphore_signal', '__dispatch_tsd'], stubs=STUBS, blocking=['_dispatch_sema4_wait'], visible=['_dispatch_sema4_signal', '_dispatch_sema4_timedwait'],
    seq=True, nt=5, heap=256, defines=['-DQ_ROUNDS=3', '-DQ_MAXB=8'], unwind=6, probes=PR, timeout=1500, witness_any=True,
    note='REAL interleavings (tier Q): 2 waiters (timeout class NOW/finite/FOREVER chosen by the solver) x 2 signalers, initial value 0/1, context switch before every atomic access and kernel call, 3 rounds x 4 threads x <=8 steps'))
ASSUMPTIONS = ['tier S: one call from an arbitrary 64-bit dsema_value; other threads may replace the value (any 64-bit value) at most twice before the unit\'s atomic accesses',
               'the kernel semaphore (lock.c _dispatch_sema4_*) is replaced by its POSIX contract: signal posts one wake-up, wait consumes one, timedwait either consumes one or reports a timeout (solver chooses)',
               'global conservation (successes <= v + signals, v + S - W permits remain) is the sum of the per-call accounting lemmas; the cross-thread schedule itself is not enumerated here']
LEVEL_TEXT = 'Tier S permit accounting of one call from all 2^64 values, all timeouts, arbitrary kernel answers and <=2 interfering signals/waits: signal adds one permit and posts exactly when the incremented value shows a waiter; a successful wait takes one permit and consumes exactly one kernel wake-up iff it went through the slow path; a timed-out wait has net effect zero, undoes only from a negative value, consumes no wake-up and only after the kernel reported the timeout; FOREVER never times out. The global conservation law is the sum of these per-call lemmas.'
LEVEL_NOTE = 'The kernel semaphore is replaced by its POSIX contract; cross-thread schedules are not enumerated (DESIGN: native-thread kernel measured in the design phase is not part of the registered check).'
