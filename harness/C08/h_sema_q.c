/* C08 tier Q: the permit conservation law under REAL interleavings.  Two waiters (real dispatch_semaphore_wait + _dispatch_semaphore_wait_slow, each with a solver-chosen
   timeout class: NOW / a finite time / FOREVER) and two signalers (real dispatch_semaphore_signal + _dispatch_semaphore_signal_slow) run as sequentialised threads with a
   possible context switch before every atomic access and every kernel-semaphore call; the initial value is 0 or 1.  The kernel semaphore is a counter with the POSIX
   contract: post adds one; wait blocks until it can take one; timedwait takes one if there is one when it is evaluated, otherwise reports the timeout (a post that
   arrives "just in time" is the schedule in which the evaluation is delayed past the post).
   Oracle: at every slice boundary successes <= v + signals started; when all four calls have finished: value == v + 2 - successes, NO kernel wake-up is left over
   (a stale one would satisfy a later wait without a signal), a wait without timeout never fails; a waiter is never left blocked once both signals have completed. */
#include "hpre.h"
static int ksem;
#define ENABLED__dispatch_sema4_wait(s) (ksem > 0)
#include "model.c"
#include "hpost.h"
#include "probe.h"
#define Q_NTHR 4
#include "seqthr.h"
#define DS IR_HEAP_BASE
#define VADDR (DS + P_OFF_dsema_value)
#define FOREVER (~0ull)
void _dispatch_bug(u64 l, u64 v) { ASSERT(0, "_dispatch_bug"); }
u64 ir_dyn_alloca(u64 n) { ASSERT(0, "dynamic alloca"); return 0; }
void libdispatch_tsd_init(void) { }
static u64 errno_cell; u64 __errno_location(void) { if (!errno_cell) errno_cell = IR_HEAP_BASE + 192; return errno_cell; }
void _dispatch_sema4_create_slow(u64 s, u32 p) { }
void _dispatch_sema4_init(u64 s, u32 p) { }
static int k_posts, k_taken, k_timeouts;
void _dispatch_sema4_signal(u64 s, u64 n) { ASSERT(s == DS + P_OFF_dsema_sema && n == 1, "posts the semaphore's own kernel object once"); ksem += 1; k_posts++; }
void _dispatch_sema4_wait(u64 s) { ASSERT(ksem > 0, "scheduler: kernel wait resumed without a wake-up"); ksem--; k_taken++; }
_Bool _dispatch_sema4_timedwait(u64 s, u64 timeout) { if (ksem > 0) { ksem--; k_taken++; return 0; } k_timeouts++; return 1; }
static u64 in_v, in_tmo[2]; static u64 rv[IR_NT]; static int sig_started, sig_done, waits_ok, waits_done;
static u64 tmo_of(u64 c) { return c == 0 ? 0 : (c == 1 ? 12345 : FOREVER); }
static void waiter(int w) { TH_BEGIN TH_CALL(1, rv[ir_cur] = dispatch_semaphore_wait(DS, tmo_of(in_tmo[w]))) waits_done++; if (rv[ir_cur] == 0) waits_ok++;
  else ASSERT(in_tmo[w] != 2, "FOREVER: a wait without timeout never reports a timeout"); TH_END }
static void signaler(void) { TH_BEGIN sig_started++; TH_CALL(1, rv[ir_cur] = dispatch_semaphore_signal(DS)) sig_done++; TH_END }
static void q_thread(int t) { if (t == 1) waiter(0); else if (t == 2) waiter(1); else signaler(); }
void harness(void) {
  ir_init_globals(); for (int t = 0; t < IR_NT; t++) IR_ST32(TLS___dispatch_tsd(t), 0x100 + 4 * t);
  SYM(in_v); ASSUME(in_v <= 1); SYM_AT(in_tmo, 0); SYM_AT(in_tmo, 1); ASSUME(in_tmo[0] <= 2 && in_tmo[1] <= 2);
  IR_ST64(VADDR, in_v); IR_ST64(DS + P_OFF_dsema_orig, in_v);
  for (int r = 0; r < Q_ROUNDS; r++) for (int t = 1; t <= Q_NTHR; t++) { q_run_slice(r, t); ir_cur = 0;
    ASSERT(waits_ok <= (int)in_v + sig_started, "NO-SPURIOUS-SUCCESS: at every moment the successful waits are at most v plus the signals that have started"); }
  q_finish();
  ASSERT(sig_done == 2, "signals never block");
  for (int w = 1; w <= 2; w++) ASSERT(tdone[w], "NO-LOST-SIGNAL: once both signals have completed no waiter is left blocked in the kernel (v + 2 permits cover both waiters)");
  if (sig_done == 2 && waits_done == 2) {
    ASSERT((s64)IR_LD64(VADDR) == (s64)in_v + 2 - waits_ok, "CONSERVATION: after all calls exactly v + signals - successful waits permits remain in the value");
    ASSERT(ksem == 0, "CONSERVATION: no kernel wake-up is left over (a stale one satisfies a later wait that no signal matches)");
    ASSERT(k_posts == k_taken, "every kernel wake-up that was posted was consumed by exactly one waiter");
    WITNESS_REACHED("all four calls completed");
    WITNESS_IF(k_timeouts >= 1 && k_posts >= 1, "a timeout raced a kernel post"); WITNESS_IF(waits_ok == 2 && in_v == 0, "both waiters satisfied by the two signals");
  }

}
