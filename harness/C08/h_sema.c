/* C08 tier S: permit accounting of one semaphore call, real dispatch_semaphore_signal / dispatch_semaphore_wait / _dispatch_semaphore_wait_slow (src/semaphore.c),
   for ALL 64-bit values of dsema_value, all timeouts, arbitrary kernel answers, and interference by other threads' signals/waits on dsema_value.
   Accounting (the conservation law is the sum of these over all calls):
     signal:            dV = +1, and exactly one kernel post iff the value it incremented was negative (a waiter is, or will be, asleep)
     wait -> 0:         dV = -1, and it consumed exactly one kernel wake-up iff it went through the slow path
     wait -> non-zero:  dV = 0 (its decrement was undone from a NEGATIVE value), it consumed no kernel wake-up, and its timeout really expired (or was NOW) */
#include "hpre.h"
static void s_pre(unsigned long long a); static void s_cas_ok(unsigned long long a, unsigned long long o, unsigned long long n); static void s_rmw(unsigned long long a, unsigned long long o);
#define IR_CAS_PRE(a, o) s_pre(a)
#define IR_RMW_PRE(a, o) s_pre(a)
#define IR_ALOAD_PRE(a, o) s_pre(a)      /* a plain (re-)read of the value is an access other threads can get in front of, too */
#define IR_CAS_OK(a, old, nw, o) s_cas_ok(a, old, nw)
#define IR_RMW_DONE(a, old, o) s_rmw(a, old)
#include "model.c"
#include "hpost.h"
#include "probe.h"
#define DS IR_HEAP_BASE
#define VADDR (DS + P_OFF_dsema_value)
#define FOREVER (~0ull)
#ifndef S_MAX_INTERFERE
#define S_MAX_INTERFERE 2
#endif
static u64 in_value, in_timeout, in_interfere[S_MAX_INTERFERE], in_do_interfere[S_MAX_INTERFERE], in_kernel_timeout[2]; static int s_ninterfere; static _Bool s_on;
static s64 own_dv; static int own_ops, undo_cas; static s64 undo_from, rmw_old;
static void s_pre(unsigned long long a) { if (a != VADDR || !s_on) return;
  if (s_ninterfere < S_MAX_INTERFERE) { int k = s_ninterfere++; SYM_AT(in_do_interfere, k); SYM_AT(in_interfere, k); if (in_do_interfere[k] & 1) { ASSUME((s64)in_interfere[k] != (s64)0x7fffffffffffffffll && (s64)in_interfere[k] != (s64)(-0x7fffffffffffffffll - 1));  /* value at LONG_MAX / LONG_MIN: the documented unbalanced-call crash */ IR_ST64(VADDR, in_interfere[k]); } } }
static void s_cas_ok(unsigned long long a, unsigned long long o, unsigned long long n) { if (a == VADDR) { own_dv += (s64)(n - o); own_ops++; undo_cas++; undo_from = (s64)o; } }
static void s_rmw(unsigned long long a, unsigned long long o) { if (a == VADDR) { own_dv += (s64)(IR_LD64(VADDR) - o); own_ops++; rmw_old = (s64)o; } }
void _dispatch_bug(u64 l, u64 v) { ASSERT(0, "_dispatch_bug"); }
u64 ir_dyn_alloca(u64 n) { ASSERT(0, "dynamic alloca"); return 0; }
void libdispatch_tsd_init(void) { }
static u64 errno_cell; u64 __errno_location(void) { if (!errno_cell) errno_cell = ir_bump(8); return errno_cell; }
static int k_posts, k_waits, k_timedwaits, k_consumed, k_timedout;
void _dispatch_sema4_create_slow(u64 s, u32 p) { }
void _dispatch_sema4_init(u64 s, u32 p) { }
void _dispatch_sema4_signal(u64 s, u64 n) { ASSERT(s == DS + P_OFF_dsema_sema && n == 1, "posts the semaphore's own kernel object once"); k_posts++; }
void _dispatch_sema4_wait(u64 s) { ASSERT(s == DS + P_OFF_dsema_sema, "waits on the semaphore's own kernel object"); k_waits++; k_consumed++; }
_Bool _dispatch_sema4_timedwait(u64 s, u64 timeout) { ASSERT(timeout == in_timeout, "the caller's timeout is handed to the kernel");
  int k = k_timedwaits; ASSUME(k < 2); k_timedwaits++; SYM_AT(in_kernel_timeout, k); if (in_kernel_timeout[k] & 1) { k_timedout++; return 1; } k_consumed++; return 0; }
static void setup(void) { ir_init_globals(); ir_heap_next = IR_HEAP_BASE + 256; IR_ST32(TLS___dispatch_tsd(0), 0x104); SYM(in_value); IR_ST64(VADDR, in_value); }

#ifdef H_SIGNAL
void harness(void) {
  setup(); s_on = 1; ASSUME((s64)in_value != (s64)0x7fffffffffffffffll);
  u64 before_trap = 0;
  u64 r = dispatch_semaphore_signal(DS);
  ASSERT(own_ops == 1 && own_dv == 1, "CONSERVATION: signal adds exactly one permit to the value");
  /* judged on the value this call's own increment started from (other threads may move the value again afterwards - the wake-up is still owed) */
  ASSERT(k_posts == ((rmw_old < 0) ? 1 : 0), "NO-LOST-SIGNAL / NO-SPURIOUS: a kernel wake-up is posted exactly when the incremented value shows a waiter (old value negative), whatever other threads do to the value afterwards");
  ASSERT((r != 0) == (k_posts == 1), "the return value tells whether a waiter was woken");
  WITNESS_IF(k_posts, "signal wakes a waiter"); WITNESS_IF(!k_posts, "signal banks a permit");
}
#endif

#ifdef H_WAIT
void harness(void) {
  setup(); s_on = 1; SYM(in_timeout); ASSUME((s64)in_value != (s64)(-0x7fffffffffffffffll - 1));
  u64 r = dispatch_semaphore_wait(DS, in_timeout);
  if (r == 0) {
    ASSERT(own_dv == -1, "CONSERVATION: a successful wait takes exactly one permit from the value");
    ASSERT(k_consumed == (own_ops == 1 && k_waits + k_timedwaits == 0 ? 0 : 1), "CONSERVATION: it consumes exactly one kernel wake-up if (and only if) it had to take the slow path");
    if (k_waits + k_timedwaits == 0) ASSERT(own_ops == 1, "fast path: a single decrement that stayed non-negative");
    WITNESS_IF(k_waits == 1 && k_timedwaits == 1, "timeout raced a signal: the pending wake-up is drained"); WITNESS_IF(k_consumed == 0, "fast path");
  } else {
    ASSERT(in_timeout != FOREVER, "FOREVER: a wait without timeout never reports a timeout");
    ASSERT(in_timeout == 0 || k_timedout >= 1, "FULL-TIMEOUT: a timed wait reports a timeout only after the kernel said the time elapsed");
    ASSERT(own_dv == 0 && undo_cas == 1, "CONSERVATION: a timed-out wait gives its permit reservation back (net effect on the value is zero)");
    ASSERT(undo_from < 0, "NO-SPURIOUS-PERMIT: the reservation is given back only from a negative value; from zero or above a signal is already on its way and must be consumed instead");
    ASSERT(k_consumed == 0, "a timed-out wait consumes no kernel wake-up");
    WITNESS_IF(in_timeout == 0, "poll timed out"); WITNESS_IF(in_timeout != 0, "timed wait timed out");
  }
}
#endif
