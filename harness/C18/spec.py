import sys, os
sys.path.insert(0, os.path.join(os.path.dirname(__file__), '..', 'common'))
from vlib import H
from st_probes import ST_PROBES
PR = dict(ST_PROBES); PR.update({'SZ_attr': 'sizeof(struct dispatch_queue_attr_s)', 'ATTR_COUNT': 'DISPATCH_QUEUE_ATTR_COUNT', 'SZ_rootq': 'sizeof(struct dispatch_queue_global_s)'})
U = ['dispatch_queue_attr_make_initially_inactive', 'dispatch_queue_attr_make_with_qos_class', 'dispatch_queue_attr_make_with_autorelease_frequency', 'dispatch_queue_attr_make_with_overcommit', 'dispatch_get_global_queue', '_dispatch_root_queues']
def A(name, define, note, **kw):
    return H(name, 'h_attr.c', U, stubs=['_dispatch_bug', 'libdispatch_tsd_init', 'memcmp'], noglobal=['_dispatch_queue_attrs'], icall_only=['_dispatch_object_no_invoke'], nt=1, heap=256, defines=['-D' + define], note=note, unwind=3, probes=PR, timeout=600, **kw)
HARNESSES = [
    A('A_one_constructor', 'H_ONE', 'each of the 4 attribute constructors on every table entry (symbolic index over all 4032) with arbitrary arguments: changes exactly its field; invalid QoS/relpri ignored'),
    A('A_two_orders', 'H_TWO', 'any two different constructors in both orders on every table entry: same result'),
    A('A_roundtrip', 'H_ROUNDTRIP', 'to_info/from_info round trip on every table entry'),
    A('G_global_queue', 'H_GLOBAL', 'dispatch_get_global_queue over all 2^64 identifiers x 2^64 flags'),
]
# ---- identity part: dispatch_get_specific / dispatch_assert_queue(_not) inside work items, through the shared history harness
from hist_spec import HH
ID_ENT = ['dispatch_get_specific', 'dispatch_queue_set_specific', 'dispatch_assert_queue', 'dispatch_assert_queue_not']
ID_ICALL = ['_dispatch_queue_init_specific']
def ID(seq, specmask, neg=None, **cfg):
    extra = ['-DIDENTITY', '-DSPECMASK=%d' % specmask] + (['-DNEGTEST=%d' % neg[1], '-DNEGITEM=%d' % neg[0]] if neg else [])
    h = HH(seq, extra=extra, entries_extra=ID_ENT, icall_extra=ID_ICALL, stubs_extra=['_dispatch_assert_queue_fail'], name_extra='_id%d%s' % (specmask, ('_neg%d_%d' % neg) if neg else ''), **cfg)
    h.unwindset += ',_dispatch_thread_frame_find_queue.0:12,dispatch_get_specific.0:6,identity_checks.0:5,identity_checks.1:5,identity_checks.2:5,harness.7:6,harness.8:6,harness.9:6,harness.10:6'
    return h
IDH = []
for mask in (0, 1, 2, 3):
    IDH += [ID(x, mask, chain=True) for x in ('a', 's', 'a1', 's1', 'b', 'as', 'aRs1')]
    IDH += [ID(x, mask, chain=True, conc=True) for x in ('a', 's', 'b', 'ab')]
for mask in (0, 2, 5, 7):
    IDH += [ID(x, mask, fanin=True) for x in ('a', 'a2', 's2', 'a1', 'aa2', 's1')]
IDH += [ID(x, 5, indep=True, conc=c) for x in ('a~s2', 's~s2', 'a~s2R', 'b~s2') for c in (False, True)]
# the assertion API must crash: assert_queue on a queue outside the chain, assert_queue_not on one inside it (the crash ends the path; returning is the violation)
IDH += [ID('a', 0, neg=(0, 1), chain=True), ID('a1', 0, neg=(0, 0), chain=True), ID('s', 0, neg=(0, 0), chain=True), ID('a', 0, neg=(0, 2), fanin=True), ID('a2', 0, neg=(0, 0), fanin=True),
        ID('a~s2', 0, neg=(1, 0), indep=True, conc=True), ID('a~s2', 0, neg=(1, 1), indep=True, conc=True), ID('a', 0, neg=(0, 2), indep=True)]
# the chain ends in the real thread-bound MAIN queue: synchronous items are run remotely by the main thread, which must make the SUBMISSION queue current (not the main queue)
for mask in (0, 1, 2, 3):
    IDH += [ID(x, mask, mainq=True) for x in ('a', 's', 'a1', 's1', 'as', 'w')]
HARNESSES += IDH
ASSUMPTIONS = ['attribute table contents are excluded (attributes are used as addresses only); attribute index symbolic over the whole table (count read from the sources by a probe and compared with the documented product 2*2*16*7*3*3)',
               'the oracle decodes indices by the documented field order; division/modulo by constants on both sides',
               'identity: hierarchies of depth 2 (chain, fan-in) and three independent queues; keys on every subset of levels; submission paths async, sync, barrier, redirected through a concurrent queue, and synchronous submission from inside a running item (same thread); dispatch_apply path not covered', 'global queues: the platform clamp (no OS QoS support: MAINTENANCE->BACKGROUND, USER_INTERACTIVE->USER_INITIATED) is part of the oracle']
LEVEL_TEXT = "Attribute algebra over the whole table: symbolic index over all 4032 entries (count probed from the sources and compared with the documented product) and arbitrary constructor arguments: each of the four public constructors changes exactly its field, invalid QoS/relative priority leave the attribute unchanged, any two constructors commute, to_info/from_info round-trip. dispatch_get_global_queue over all int-valued identifiers x all 2^64 flags: documented class with the platform clamp, NULL for undefined identifiers/flags. A genuine defect (HIGH priority mapped to the background queue) was found and fixed in /repo. Identity: inside work items reached by async, sync, barrier, redirected and nested-synchronous submission, dispatch_get_specific returns the nearest ancestor's value, dispatch_assert_queue accepts exactly the queues of the chain (and of the submitting context for synchronous submissions) and dispatch_assert_queue_not the others (the crash direction is checked by histories that must end in the crash). Identity also when the chain ends in the real thread-bound main queue (keys on every subset of levels; asynchronous and synchronous submission from another thread, run remotely by the main thread): the submission queue, not the main queue, is current inside the item."
LEVEL_NOTE = 'Identity part: through the shared history harness on chains, fan-ins and independent queues with keys on every subset of levels; depth <= 2; apply path not covered. Queue creation from an attribute (_dispatch_lane_create_with_target) is exercised only through the configurations of the history harness.'
