import sys, os
sys.path.insert(0, os.path.join(os.path.dirname(__file__), '..', 'common'))
from vlib import H
from st_probes import ST_PROBES
PR = dict(ST_PROBES); PR.update({'SZ_attr': 'sizeof(struct dispatch_queue_attr_s)', 'ATTR_COUNT': 'DISPATCH_QUEUE_ATTR_COUNT', 'SZ_rootq': 'sizeof(struct dispatch_queue_global_s)'})
U = ['dispatch_queue_attr_make_initially_inactive', 'dispatch_queue_attr_make_with_qos_class', 'dispatch_queue_attr_make_with_autorelease_frequency', 'dispatch_queue_attr_make_with_overcommit', 'dispatch_get_global_queue', '_dispatch_root_queues']
def A(name, define, note, **kw):
    return H(name, 'h_attr.c', U, stubs=['_dispatch_bug', 'libdispatch_tsd_init', 'memcmp'], noglobal=['_dispatch_queue_attrs'], icall_only=['_dispatch_object_no_invoke'], nt=1, heap=256, defines=['-D' + define], note=note, unwind=3, probes=PR, timeout=600, **kw)
HARNESSES = [
    A('A_one_constructor', 'H_ONE', 'each of the 4 attribute constructors on every table entry (symbolic index over all 4032) with arbitrary arguments: changes exactly its field; invalid QoS/relpri ignored'),
    A('A_two_orders', 'H_TWO', 'any two different constructors in both orders on every table entry: same result'),
    A('A_roundtrip', 'H_ROUNDTRIP', 'to_info/from_info round trip on every table entry'),
    A('G_global_queue', 'H_GLOBAL', 'dispatch_get_global_queue over all 2^64 identifiers x 2^64 flags'),
]
ASSUMPTIONS = ['attribute table contents are excluded (attributes are used as addresses only); attribute index symbolic over the whole table (count read from the sources by a probe and compared with the documented product 2*2*16*7*3*3)',
               'the oracle decodes indices by the documented field order; division/modulo by constants on both sides',
               'global queues: the platform clamp (no OS QoS support: MAINTENANCE->BACKGROUND, USER_INTERACTIVE->USER_INITIATED) is part of the oracle']
LEVEL_TEXT = 'Attribute algebra over the whole table: symbolic index over all 4032 entries (count probed from the sources and compared with the documented product) and arbitrary constructor arguments: each of the four public constructors changes exactly its field, invalid QoS/relative priority leave the attribute unchanged, any two constructors commute, to_info/from_info round-trip. dispatch_get_global_queue over all int-valued identifiers x all 2^64 flags: documented class with the platform clamp, NULL for undefined identifiers/flags. A genuine defect (HIGH priority mapped to the background queue) was found and fixed in /repo.'
LEVEL_NOTE = 'The identity part of the property (dispatch_get_specific, dispatch_assert_queue inside work items) is NOT covered by a registered harness; queue creation from an attribute (_dispatch_lane_create_with_target) is exercised only through the configurations of the history harness.'
