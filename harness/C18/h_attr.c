/* C18 (attribute algebra and global queues): real _dispatch_queue_attr_to_info / _from_info, the four public attribute constructors and
   dispatch_get_global_queue (src/init.c) over ALL inputs.  Attributes are addresses into the attribute table (only address arithmetic is performed on it).
   The oracle decodes an attribute index independently, from the documented field order
   (inactive:2, concurrent:2, relative priority:16 [0..-15], QoS:7, autorelease frequency:3, overcommit:3). */
#include "hpre.h"
#include "model.c"
#include "hpost.h"
#include "probe.h"
void _dispatch_bug(u64 l, u64 v) { ASSERT(0, "_dispatch_bug"); }
u64 ir_dyn_alloca(u64 n) { ASSERT(0, "dynamic alloca"); return 0; }
void libdispatch_tsd_init(void) { }
u32 memcmp(u64 a, u64 b, u64 n) { ASSERT(0, "memcmp on the attribute table (only reached for attributes outside the table)"); return 1; }
#define BASE IR_NOGLOBAL
#define NATTR (2ull * 2 * 16 * 7 * 3 * 3)
typedef struct { u64 inactive, concurrent, relpri /* 0..15 = -relative priority */, qos, af, oc; } fields_t;
static fields_t dec(u64 idx) { fields_t f; f.inactive = idx % 2; idx /= 2; f.concurrent = !(idx % 2); idx /= 2; f.relpri = idx % 16; idx /= 16; f.qos = idx % 7; idx /= 7; f.af = idx % 3; idx /= 3; f.oc = idx % 3; return f; }
static _Bool same_except(fields_t a, fields_t b, int which) {     /* which: 0 inactive, 1 qos+relpri, 2 af, 3 oc */
  return (which == 0 || a.inactive == b.inactive) && a.concurrent == b.concurrent && (which == 1 || (a.relpri == b.relpri && a.qos == b.qos)) && (which == 2 || a.af == b.af) && (which == 3 || a.oc == b.oc); }
static u64 in_idx, in_qc, in_rp, in_b, in_af, in_which, in_which2, in_prio, in_flags;
static u64 A(u64 idx) { return BASE + idx * P_SZ_attr; }
static u64 IDX(u64 a) { return (a - BASE) / P_SZ_attr; }
/* documented QoS classes -> internal QoS (qos.h): MAINTENANCE 0x05->1, BACKGROUND 0x09->2, UTILITY 0x11->3, DEFAULT 0x15->4, USER_INITIATED 0x19->5, USER_INTERACTIVE 0x21->6, UNSPECIFIED 0->0 */
static int qos_of_class(u64 c) { return c == 0x05 ? 1 : c == 0x09 ? 2 : c == 0x11 ? 3 : c == 0x15 ? 4 : c == 0x19 ? 5 : c == 0x21 ? 6 : c == 0 ? 0 : -1; }
static u64 apply(u64 a, u64 which) {
  if (which == 0) return dispatch_queue_attr_make_initially_inactive(a);
  if (which == 1) return dispatch_queue_attr_make_with_qos_class(a, (u32)in_qc, (u32)in_rp);
  if (which == 2) return dispatch_queue_attr_make_with_autorelease_frequency(a, in_af);
  return dispatch_queue_attr_make_with_overcommit(a, in_b & 1); }

#ifdef H_ONE
/* each constructor changes exactly its own field, for every table entry */
void harness(void) {
  ir_init_globals(); ASSERT(P_ATTR_COUNT == NATTR, "layout guard: the attribute table has 2*2*16*7*3*3 entries");
  SYM(in_idx); SYM(in_which); SYM(in_qc); SYM(in_rp); SYM(in_b); SYM(in_af); ASSUME(in_idx < NATTR && in_which < 4 && in_af < 3);
  u64 r = apply(A(in_idx), in_which);
  ASSERT(r >= BASE && (r - BASE) % P_SZ_attr == 0 && IDX(r) < NATTR, "the result is an entry of the attribute table");
  fields_t o = dec(in_idx), n = dec(IDX(r));
  ASSERT(same_except(o, n, (int)in_which), "COMPOSE: a constructor changes only its own attribute field (hence the order of constructors does not matter)");
  if (in_which == 0) ASSERT(n.inactive == 1, "initially_inactive sets the inactive field");
  if (in_which == 2) ASSERT(n.af == in_af, "autorelease frequency is recorded");
  if (in_which == 3) ASSERT(n.oc == ((in_b & 1) ? 1 : 2), "overcommit enabled/disabled is recorded");
  if (in_which == 1) { int q = qos_of_class((u32)in_qc); s32 rp = (s32)in_rp; _Bool valid = q >= 0 && rp <= 0 && rp >= -15;
    if (valid) ASSERT(n.qos == (u64)q && n.relpri == (u64)(-rp), "QOS: a valid QoS class and relative priority (0..-15) are recorded exactly");
    else ASSERT(r == A(in_idx), "QOS: an invalid QoS class or relative priority leaves the attribute unchanged");
    WITNESS_IF(valid && rp == -15, "relative priority -15 recorded"); WITNESS_IF(!valid, "invalid input ignored"); }
  WITNESS_IF(in_which == 3, "overcommit constructor");
}
#endif
#ifdef H_TWO
/* two constructors in either order give the same attribute */
void harness(void) {
  ir_init_globals(); SYM(in_idx); SYM(in_which); SYM(in_which2); SYM(in_qc); SYM(in_rp); SYM(in_b); SYM(in_af); ASSUME(in_idx < NATTR && in_which < 4 && in_which2 < 4 && in_which != in_which2 && in_af < 3);
  u64 r1 = apply(apply(A(in_idx), in_which), in_which2), r2 = apply(apply(A(in_idx), in_which2), in_which);
  ASSERT(r1 == r2, "ORDER: the attribute does not depend on the order in which the constructors were applied");
  WITNESS_REACHED("two constructors composed");
}
#endif
#ifdef H_ROUNDTRIP
/* to_info / from_info are inverse on the whole table, and NULL denotes the default serial attribute */
void harness(void) {
  ir_init_globals(); SYM(in_idx); ASSUME(in_idx < NATTR);
  u64 r = dispatch_queue_attr_make_with_autorelease_frequency(A(in_idx), dec(in_idx).af);      /* = from_info(to_info(a)) */
  ASSERT(r == A(in_idx), "ROUNDTRIP: decoding and re-encoding an attribute gives the same table entry");
  u64 d = dispatch_queue_attr_make_with_autorelease_frequency(0, 0);
  ASSERT(d == A(2), "NULL is the serial, active, unspecified-QoS attribute");
  WITNESS_REACHED("round trip");
}
#endif
#ifdef H_GLOBAL
/* dispatch_get_global_queue over all 2^64 identifiers x 2^64 flags */
#define RQ(qos, oc) (G__dispatch_root_queues + (u64)(2 * ((qos) - 1) + (oc)) * P_SZ_rootq)
void harness(void) {
  ir_init_globals(); SYM(in_prio); SYM(in_flags);
  ASSUME((s64)in_prio == (s64)(s32)in_prio);      /* identifiers are int-valued constants (long priorities, 32-bit qos_class_t); values that do not fit an int are outside the claim */
  u64 r = dispatch_get_global_queue(in_prio, in_flags);
  s64 p = (s64)in_prio; int q;
  /* documented identifiers (dispatch/queue.h): HIGH 2, DEFAULT 0, LOW -2, BACKGROUND INT16_MIN, and the QoS classes of sys/qos.h; NON_INTERACTIVE INT8_MIN is the private alias of utility */
  if (p == 2) q = 5; else if (p == 0) q = 4; else if (p == -2) q = 3; else if (p == -32768) q = 2; else if (p == -128) q = 3; else q = (p >= 0) ? qos_of_class((u32)in_prio) : -1;
  /* platform clamp: this OS has no QoS support, MAINTENANCE is served by BACKGROUND and USER_INTERACTIVE by USER_INITIATED */
  if (q == 1) q = 2; if (q == 6) q = 5;
  if ((in_flags & ~2ull) != 0 || q <= 0) { ASSERT(r == 0, "UNDEFINED: undefined identifiers or flags yield NULL"); WITNESS_IF(q > 0, "bad flags"); WITNESS_IF(q <= 0 && in_flags == 0, "undefined identifier"); }
  else { ASSERT(r == RQ(q, (in_flags & 2) ? 1 : 0), "CLASS: every documented priority / QoS identifier maps to the global queue of its documented class (with the platform clamp), overcommit flag respected");
         WITNESS_IF(p == 2, "DISPATCH_QUEUE_PRIORITY_HIGH"); WITNESS_IF(in_prio == 0x21, "QOS_CLASS_USER_INTERACTIVE"); WITNESS_IF((in_flags & 2) != 0, "overcommit"); }
}
#endif
