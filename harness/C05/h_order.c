/* C05, visibility half: on every hand-off edge the property names, the atomic operation that performs the hand-off in the REAL code carries the
   documented C11 memory order (release on the publishing side, acquire on the receiving side) on every path that performs the hand-off - decided by
   symbolic execution of the real unit from an arbitrary state (the order is read off the IR instruction that the path actually executes).
   Plus the logic of the thread-event wait (a sync waiter leaves its wait only when the event was really signalled).
   What a solver cannot see - the hardware's own memory model - is outside the claim. */
#include "hpre.h"
static void rec_w(unsigned long long a, int o); static void rec_r(unsigned long long a, int o); static void rec_f(int o);
#define IR_CAS_OK(a, old, nw, o) do { rec_w(a, o); rec_r(a, o); } while (0)
#define IR_RMW_DONE(a, old, o) do { rec_w(a, o); rec_r(a, o); } while (0)
#define IR_ASTORE_DONE(a, v, o) rec_w(a, o)
#define IR_ALOAD_DONE(a, v, o) rec_r(a, o)
#define IR_CAS_FAIL(a, old, o) rec_r(a, o)
#define IR_FENCE(o) rec_f(o)
#include "model.c"
#include "hpost.h"
#include "probe.h"
#define OBJ IR_HEAP_BASE
static u64 watch; static int nw, nr, last_w = -1, last_r = -1, fence_acq, fence_rel;
static void rec_w(unsigned long long a, int o) { if (a == watch) { nw++; last_w = o; } }
static void rec_r(unsigned long long a, int o) { if (a == watch) { nr++; last_r = o; fence_acq = 0; } }
static void rec_f(int o) { if (o == 2 || o >= 4) fence_acq = 1; if (o >= 3) fence_rel = 1; }
#define IS_REL(o) ((o) >= 3)
#define IS_ACQ(o) ((o) == 2 || (o) >= 4)
void _dispatch_bug(u64 l, u64 v) { ASSERT(0, "_dispatch_bug"); }
u64 ir_dyn_alloca(u64 n) { ASSERT(0, "dynamic alloca"); return 0; }
void libdispatch_tsd_init(void) { }
void _dispatch_set_basepri_override_qos(u32 q) { }
static u64 errno_cell; u64 __errno_location(void) { if (!errno_cell) errno_cell = ir_bump(8); return errno_cell; }
static u64 in_state, in_width, in_x;
#define TID 0x104u
#define IN_BARRIER 0x0040000000000000ull
#define FULL_BIT 0x0020000000000000ull
#define WIDTH_INTERVAL 0x0000020000000000ull
#define DIRTY 0x0000008000000000ull
#define ENQUEUED 0x0000000080000000ull
#define OWNER(s) ((s) & 0x3fffffffull)
static void qsetup(void) { ir_init_globals(); ir_heap_next = IR_HEAP_BASE + 512; IR_ST32(TLS___dispatch_tsd(0), TID); SYM(in_state); SYM(in_width); ASSUME(in_width >= 1 && in_width <= 0xffe);
  watch = OBJ + P_OFF_dq_state; IR_ST64(watch, in_state); IR_ST16(OBJ + P_OFF_dq_width, (u16)in_width); IR_ST64(OBJ + P_OFF_do_targetq, OBJ + 256); }
static int pushes, rel2, ret2, wakeups, bcompletes;
#ifdef Q_STUBS
void _dispatch_queue_push_queue(u64 tq, u64 dq, u64 st) { pushes++; }
void _dispatch_release_2_tailcall(u64 o) { rel2++; }
void _dispatch_retain_2(u64 o) { ret2++; }
void _dispatch_queue_wakeup_with_override_slow(u64 a, u64 b, u32 c) { }
void _dispatch_lane_wakeup(u64 dq, u32 qos, u32 flags) { wakeups++; }
void _dispatch_lane_barrier_complete(u64 dq, u32 qos, u32 flags) { bcompletes++; }
void _dispatch_client_callout(u64 c, u64 f) { }
#endif

#ifdef E_LOCK
void harness(void) { qsetup(); ASSUME(in_state & ENQUEUED); ASSUME(!((in_state & 0x0000001000000000ull) && (in_state & 0x0000000700000000ull)));
  u64 owned = _dispatch_queue_drain_try_lock(OBJ, 0);
  if (owned) { ASSERT(IS_ACQ(last_w), "ACQUIRE: taking the drain lock is an acquire operation on the state word (the new owner sees what the previous owner and the enqueuer published)"); WITNESS_REACHED("lock taken"); }
  else WITNESS_REACHED("lock refused"); }
#endif
#ifdef E_BSYNC
void harness(void) { qsetup();
  _Bool ok = _dispatch_queue_try_acquire_barrier_sync_and_suspend(OBJ, TID, 0);
  if (ok) { ASSERT(IS_ACQ(last_w), "ACQUIRE: the barrier-sync fast path acquires the state word"); WITNESS_REACHED("fast path taken"); } else WITNESS_REACHED("refused"); }
#endif
#ifdef E_UNLOCK
void harness(void) { qsetup(); SYM(in_x); in_x &= 1; ASSUME(OWNER(in_state) == TID && (in_state & IN_BARRIER) && ((in_state >> 41) & 0x1fff) >= 1);
  _Bool ok = _dispatch_queue_drain_try_unlock(OBJ, IN_BARRIER + WIDTH_INTERVAL, in_x);
  if (ok) { ASSERT(IS_REL(last_w), "RELEASE: releasing the drain lock is a release operation (what the items wrote is visible to the next owner)"); WITNESS_REACHED("unlocked"); }
  else { ASSERT(IS_ACQ(last_w), "ACQUIRE: a refused unlock renews the lock with an acquire, to see what the enqueuer that set DIRTY has published"); WITNESS_REACHED("refused (dirty)"); } }
#endif
#ifdef E_BCOMPLETE
void harness(void) { qsetup(); ASSUME(OWNER(in_state) == TID && (in_state & IN_BARRIER) && ((in_state >> 41) & 0x1fff) >= in_width && !(in_state & 0x0000006000000000ull));
  u64 vt = ir_bump(P_SZ_vtable); IR_ST64(OBJ + P_OFF_vtable, vt); IR_ST64(vt + P_OFF_vt_wakeup, FN__dispatch_lane_wakeup);
  _dispatch_lane_class_barrier_complete(OBJ, 0, 0, 0, IN_BARRIER + in_width * WIDTH_INTERVAL);
  if (!wakeups) { ASSERT(IS_REL(last_w), "RELEASE: completing a barrier / sync item releases the state word"); WITNESS_REACHED("barrier released"); }
  else { ASSERT(IS_ACQ(last_w), "ACQUIRE: a retried completion renews the lock with an acquire"); WITNESS_REACHED("retried"); } }
#endif
#ifdef E_SYNCDONE
void harness(void) { qsetup(); ASSUME(in_width == 1); IR_ST16(OBJ + P_OFF_dq_width, 1); ASSUME(OWNER(in_state) == TID && (in_state & IN_BARRIER) && ((in_state >> 41) & 0x1fff) >= 1 && !(in_state & 0x0000006000000000ull));
  IR_ST64(OBJ + P_OFF_items_tail, 0);
  _dispatch_lane_barrier_sync_invoke_and_complete(OBJ, 7, 0x77);
  if (!bcompletes) { ASSERT(nw == 1 && IS_REL(last_w), "RELEASE: the uncontended end of dispatch_sync releases the state word (the item's writes are visible to the next item and to later sync callers)"); WITNESS_REACHED("fast unlock"); }
  else WITNESS_REACHED("slow completion"); }
#endif
#ifdef E_WAKEUP
void harness(void) { qsetup(); ASSUME(!(in_state & 0x0000002000000000ull)); IR_ST32(OBJ + P_OFF_priority, 0);
  _dispatch_queue_wakeup(OBJ, 0, (u32)(P_WAKEUP_MAKE_DIRTY | P_WAKEUP_CONSUME_2), 1);
  ASSERT(nw == 1 && IS_REL(last_w), "RELEASE: the enqueuer's wakeup (DIRTY / ENQUEUED) is a release operation: the item it linked is visible to whoever acquires the word next");
  WITNESS_REACHED("wakeup done"); }
#endif
#ifdef E_PUSH
void harness(void) { ir_init_globals(); ir_heap_next = IR_HEAP_BASE + 512; SYM(in_x); in_x &= 1;
  u64 item = ir_bump(P_SZ_cont), prev = ir_bump(P_SZ_cont);
  watch = OBJ + P_OFF_items_tail; IR_ST64(watch, in_x ? prev : 0); IR_ST64(OBJ + P_OFF_items_head, in_x ? prev : 0);
  _Bool was_empty = _dispatch_queue_push_item(OBJ, item);
  ASSERT(nw == 1 && IS_REL(last_w), "RELEASE: the tail exchange that publishes a work item is a release operation (what the submitter wrote before submitting is visible to the item)");
  ASSERT(was_empty == !in_x, "the push reports whether the list was empty");
  ASSERT(IR_LD64(watch) == item && (in_x ? IR_LD64(prev + P_OFF_dc_next) == item : IR_LD64(OBJ + P_OFF_items_head) == item), "the item is linked behind the previous tail (or becomes the head)");
  WITNESS_IF(in_x, "push behind an item"); WITNESS_IF(!in_x, "push on an empty list"); }
#endif
#ifdef E_TEVENT
static int fwaits, fwakes; static u64 in_fw[3];
u32 _dispatch_futex_wait(u64 addr, u32 val, u64 ts, u32 flags) { int k = fwaits; ASSUME(k < 3); fwaits++; SYM_AT(in_fw, k);
  if (in_fw[k] & 1) IR_ST32(addr, 0);         /* the signaller's increment arrived while we slept; otherwise the wake-up was spurious / stale */
  return 0; }
void _dispatch_futex_wake(u64 addr, u32 n, u32 flags) { fwakes++; }
void harness(void) { ir_init_globals(); ir_heap_next = IR_HEAP_BASE + 64; watch = OBJ; SYM(in_x); in_x &= 1;
  if (in_x) {   /* signal side */
    SYM(in_state); ASSUME((u32)in_state == 0 || (u32)in_state == 0xffffffffu); IR_ST32(OBJ, (u32)in_state);
    _dispatch_thread_event_signal(OBJ);
    ASSERT(nw == 1 && IS_REL(last_w), "RELEASE: signalling a thread event (the hand-off of a queue to a sync waiter) is a release operation");
    ASSERT(fwakes == (((u32)in_state == 0) ? 0 : 1), "a parked waiter is woken through the kernel, an early signal is just recorded");
    WITNESS_IF(fwakes, "waiter woken"); WITNESS_IF(!fwakes, "early signal");
  } else {      /* wait side */
    SYM(in_state); ASSUME((u32)in_state == 0 || (u32)in_state == 1); IR_ST32(OBJ, (u32)in_state);
    _dispatch_thread_event_wait(OBJ);
    ASSERT(IS_ACQ(last_r) || IS_ACQ(last_w), "ACQUIRE: the waiter's last access to the event is an acquire");
    ASSERT(IR_LD32(OBJ) == 0, "NO-EARLY-RETURN: the waiter leaves the wait only when the event has really been signalled (value back to 0), not on a spurious or stale wake-up");
    if (fwaits) ASSERT(in_fw[fwaits - 1] & 1, "NO-EARLY-RETURN: after a sleep that ended without the signal the waiter goes back to sleep");
    WITNESS_IF(fwaits == 2, "one spurious wake-up survived"); WITNESS_IF(fwaits == 0, "signalled before waiting");
  } }
#endif
#ifdef E_GROUP
void _dispatch_group_wake(u64 dg, u64 st, _Bool rel) { }
u32 _dispatch_wait_on_address(u64 addr, u32 val, u64 timeout, u32 flags) { IR_ST32(addr, val + 1); return 0; }
void harness(void) { ir_init_globals(); ir_heap_next = IR_HEAP_BASE + 256; IR_ST32(TLS___dispatch_tsd(0), TID); SYM(in_state); SYM(in_x); ASSUME(in_x < 3);
  watch = OBJ + P_OFF_dg_state; IR_ST64(watch, in_state);
  if (in_x == 0) { ASSUME(((u32)in_state & 0xfffffffcu) != 0); dispatch_group_leave(OBJ); ASSERT(IS_REL(last_w) || nw > 1, "-");
    ASSERT(nw >= 1, "leave updates the word"); WITNESS_REACHED("leave"); }
  else if (in_x == 1) { watch = OBJ + P_OFF_dg_state + 4; u64 r = _dispatch_group_wait_slow(OBJ, (u32)(in_state >> 32), ~0ull);
    ASSERT(r == 0 && IS_ACQ(last_r), "ACQUIRE: the waiter observes the new generation with an acquire load (it sees what the leavers wrote)"); WITNESS_REACHED("wait_slow"); }
  else { ASSUME(((u32)in_state & 0xfffffffcu) == 0); u64 r = dispatch_group_wait(OBJ, ~0ull);
    ASSERT(r == 0 && (IS_ACQ(last_r) || fence_acq), "ACQUIRE: a wait that finds the group empty returns through an acquire (load or fence)"); WITNESS_REACHED("wait on an empty group"); } }
#endif
#ifdef E_GROUP_LEAVE
void _dispatch_group_wake(u64 dg, u64 st, _Bool rel) { }
static int first_w = -1;
void harness(void) { ir_init_globals(); ir_heap_next = IR_HEAP_BASE + 256; IR_ST32(TLS___dispatch_tsd(0), TID); SYM(in_state); ASSUME(((u32)in_state & 0xfffffffcu) != 0 && ((u32)in_state & 0xfffffffcu) != 0xfffffffcu);
  watch = OBJ + P_OFF_dg_state; IR_ST64(watch, in_state);
  dispatch_group_leave(OBJ);
  ASSERT(nw == 1 && IS_REL(last_w), "RELEASE: dispatch_group_leave is a release add on the group state (the work's writes are visible to waiters and notify blocks)"); WITNESS_REACHED("leave with work outstanding"); }
#endif
#ifdef E_SEMA
void _dispatch_sema4_create_slow(u64 s, u32 p) { } void _dispatch_sema4_signal(u64 s, u64 n) { } void _dispatch_sema4_wait(u64 s) { } _Bool _dispatch_sema4_timedwait(u64 s, u64 t) { return 0; }
void harness(void) { ir_init_globals(); ir_heap_next = IR_HEAP_BASE + 256; SYM(in_state); SYM(in_x); in_x &= 1; watch = OBJ + P_OFF_dsema_value; IR_ST64(watch, in_state);
  ASSUME((s64)in_state > -1000 && (s64)in_state < 1000);
  if (in_x) { dispatch_semaphore_signal(OBJ); ASSERT(nw == 1 && IS_REL(last_w), "RELEASE: dispatch_semaphore_signal is a release increment"); WITNESS_REACHED("signal"); }
  else { dispatch_semaphore_wait(OBJ, ~0ull); ASSERT(nw == 1 && IS_ACQ(last_w), "ACQUIRE: dispatch_semaphore_wait is an acquire decrement"); WITNESS_REACHED("wait"); } }
#endif
