import sys, os
sys.path.insert(0, os.path.join(os.path.dirname(__file__), '..', 'common'))
from vlib import H
from st_probes import ST_PROBES
from hist_spec import HH
from seqs import seqs
PR = dict(ST_PROBES); PR.update({'SZ_vtable': 'sizeof(struct dispatch_lane_vtable_s)', 'OFF_vt_wakeup': 'offsetof(struct dispatch_lane_vtable_s, _os_obj_vtable.dq_wakeup)',
   'OFF_dg_state': 'offsetof(struct dispatch_group_s, dg_state)', 'OFF_dsema_value': 'offsetof(struct dispatch_semaphore_s, dsema_value)'})
QS = ['_dispatch_queue_push_queue', '_dispatch_release_2_tailcall', '_dispatch_retain_2', '_dispatch_queue_wakeup_with_override_slow', '_dispatch_lane_wakeup', '_dispatch_lane_barrier_complete', '_dispatch_client_callout']
BASE = ['_dispatch_bug', 'libdispatch_tsd_init', '_dispatch_set_basepri_override_qos', '__errno_location']
def E(name, define, units, stubs, note, q=False, icall=()):
    return H(name, 'h_order.c', units + ['__dispatch_tsd'] + (['_dispatch_lane_wakeup'] if q else []), stubs=BASE + stubs + (QS if q else []), nt=1, heap=1024, defines=['-D' + define] + (['-DQ_STUBS'] if q else []),
             note=note, unwind=5, probes=PR, timeout=300, icall_only=list(icall) + (['_dispatch_lane_wakeup'] if q else []))
HARNESSES = [
    E('E_lock_acquire', 'E_LOCK', ['_dispatch_queue_drain_try_lock'], [], 'drain lock acquisition carries acquire; all states', q=True),
    E('E_barrier_sync_acquire', 'E_BSYNC', ['_dispatch_queue_try_acquire_barrier_sync_and_suspend'], [], 'barrier-sync fast path carries acquire', q=True),
    E('E_unlock_release', 'E_UNLOCK', ['_dispatch_queue_drain_try_unlock'], [], 'drain unlock carries release; refused unlock re-acquires', q=True),
    E('E_barrier_complete_release', 'E_BCOMPLETE', ['_dispatch_lane_class_barrier_complete'], [], 'barrier completion carries release', q=True),
    E('E_sync_done_release', 'E_SYNCDONE', ['_dispatch_lane_barrier_sync_invoke_and_complete'], [], 'uncontended dispatch_sync completion carries release', q=True),
    E('E_wakeup_release', 'E_WAKEUP', ['_dispatch_queue_wakeup'], [], 'enqueuer wakeup carries release', q=True),
    E('E_mpsc_push_release', 'E_PUSH', ['_dispatch_queue_push_item'], [], 'MPSC tail exchange carries release'),
    E('E_thread_event', 'E_TEVENT', ['_dispatch_thread_event_signal', '_dispatch_thread_event_wait', '_dispatch_thread_event_wait_slow', '_dispatch_thread_event_signal_slow'], ['_dispatch_futex_wait', '_dispatch_futex_wake'],
      'thread event: signal = release, wait = acquire; the waiter survives spurious wake-ups (<=3 sleeps)'),
    E('E_group', 'E_GROUP', ['dispatch_group_leave', '_dispatch_group_wait_slow', 'dispatch_group_wait'], ['_dispatch_group_wake', '_dispatch_wait_on_address'], 'group wait returns through acquire'),
    E('E_group_leave_release', 'E_GROUP_LEAVE', ['dispatch_group_leave'], ['_dispatch_group_wake'], 'group leave is a release add'),
    E('E_semaphore', 'E_SEMA', ['dispatch_semaphore_signal', 'dispatch_semaphore_wait'], ['_dispatch_sema4_create_slow', '_dispatch_sema4_signal', '_dispatch_sema4_wait', '_dispatch_sema4_timedwait'], 'semaphore signal = release, wait = acquire'),
]
# "never returns early": bounded histories that contain a synchronous submission (assertion SYNC-RETURN inside the shared history harness)
_s = [x for x in seqs('aswBR', 3, minlen=1) if any(c in x for c in 'swB')]
HARNESSES += [HH(x) for x in _s] + [HH(x, conc=True) for x in _s if len(x) <= 2] + [HH(x, chain=True) for x in _s if len(x) <= 2]
HARNESSES += [HH(x, tiers=('thorough',)) for x in seqs('abswBR', 4, minlen=4) if any(c in x for c in 'swB')]
HARNESSES += [HH(x, mainq=True) for x in ('s', 's1', 'w', 'w1', 'B1', 'as', 'a1s1', 'a1w1', 'sas1')]     # SYNC-RETURN through / on the real thread-bound main queue (items run remotely by the main thread)
# shared with C08: the semaphore kernel under real interleavings - "a wait is satisfied only by a signal" is what the visibility clause for semaphores rests on (a stale kernel wake-up
# left behind by a timed-out wait lets a later wait return without any signal, i.e. before the producer's write: seeded C05_m4 / C08_m3)
import importlib.util as _ilu
_sp = _ilu.spec_from_file_location('spec_C08_shared', os.path.join(os.path.dirname(__file__), '..', 'C08', 'spec.py')); _m8 = _ilu.module_from_spec(_sp); _sp.loader.exec_module(_m8)
for _h in _m8.HARNESSES:
    if _h.name == 'Q_sema_2w2s': _h.file = '../C08/h_sema_q.c'; HARNESSES.append(_h)
ASSUMPTIONS = ['memory-order lemmas: the C11 order is read from the IR instruction executed on the path that performs the hand-off; consume/dependency ordering counts as acquire (as this build defines it); the hardware memory model is outside the claim',
               'dispatch_once: the release publication of DONE is asserted in the C09 harness; no acquire is asserted for _dispatch_once_wait (the code documents none on this platform)',
               'thread-event wait: futex returns arbitrarily (spurious wake-ups), at most 3 sleeps']
LEVEL_TEXT = '(a) Never returns early: the SYNC-RETURN assertion of the shared history harness over all sequences containing a synchronous submission (serial, concurrent, chained). (b) Visibility: for every hand-off edge named in the property the atomic instruction that performs it on the executed path carries the documented C11 order (acquire on lock acquisition and on the waiter side, release on unlock / wakeup / MPSC tail exchange / thread-event signal / group leave / semaphore signal), decided from arbitrary states by symbolic execution of the real unit; the thread-event waiter leaves only when really signalled (spurious wake-ups injected). Shared with C08: the semaphore kernel under real interleavings (tier Q: 2 waiters x 2 signalers) - a wait is satisfied only by a signal (no stale kernel wake-up survives a timed-out wait), which is what the semaphore visibility clause rests on.'
LEVEL_NOTE = "The C11 order is read from clang's IR; the hardware memory model and non-SC executions are outside; dispatch_once acquire side is not asserted (the code documents none on this platform; release publication is asserted in C09)."
