/* C11 tier S (timer heap): the interleaved double heap of src/event/event.c.  Real _dispatch_timer_heap_insert / _remove / _update / _resift / _get_slot /
   _grow / _shrink.  One operation with symbolic keys from an ARBITRARY valid heap of N timers: the pre-state is written directly into memory - timer i sits at
   position i of the target heap (a relabelling, no loss of generality), the deadline heap holds the timers in the order PERM (case split by the driver over
   every permutation), all keys symbolic and only assumed to satisfy both heap orders.  Explored path by path (cbmc --paths): control flow, hence every pointer,
   is concrete on each path.  Before and after the operation the full representation invariant is checked: both heap orders, back-pointers, count, the two minima being the true minima, multiset of timers. */
#include "hpre.h"
#include "model.c"
#include "hpost.h"
#include "probe.h"
#ifndef N
#define N 3
#endif
#define NT (N + 1)
u64 _dispatch_calloc(u64 n, u64 sz) { return ir_bump(n * sz); }
void free(u64 p) { if (p) ir_obj_free(p); }
void _dispatch_bug(u64 l, u64 v) { ASSERT(0, "_dispatch_bug"); }
u64 ir_dyn_alloca(u64 n) { ASSERT(0, "dynamic alloca"); return 0; }
void libdispatch_tsd_init(void) { }
static u64 H, T[NT]; static u64 in_key[NT][2], in_newkey[2], in_victim;
static _Bool present[NT];
#define KEY(t, h) IR_LD64((t) + P_OFF_dt_timer + 8ull * (h))
#define ENTRY(t, h) IR_LD32((t) + P_OFF_dt_heap_entry + 4ull * (h))
#define INVALID_ID 0xffffffffu
static u64 slot(u32 idx) { return IR_LD64(_dispatch_timer_heap_get_slot(H, idx)); }
/* in path mode every assertion costs one solver call per path: the invariant is accumulated into five flags which are asserted once at the end */
static _Bool inv_count = 1, inv_slots = 1, inv_order = 1, inv_present = 1, inv_min = 1;
static void check_invariant(const char *w) {
  u32 cnt = IR_LD32(H + P_OFF_dth_count); int np = 0;
  for (int i = 0; i < NT; i++) np += present[i];
  inv_count &= (cnt == 2u * (u32)np);
  for (int h = 0; h < 2; h++) {
    for (int j = 0; j < NT; j++) if (j < np) {
      u64 t = slot((u32)(2 * j + h));
      _Bool known = 0; for (int i = 0; i < NT; i++) known |= (present[i] && t == T[i]);
      inv_slots &= known; if (!known) return;
      inv_slots &= (ENTRY(t, h) == (u32)(2 * j + h));
      if (j > 0) { u64 p = slot((u32)(2 * ((j - 1) / 2) + h)); inv_order &= (KEY(p, h) <= KEY(t, h)); }
    }
    for (int i = 0; i < NT; i++) if (present[i]) { inv_present &= (ENTRY(T[i], h) != INVALID_ID && ENTRY(T[i], h) < cnt);
      if (np > 0) inv_min &= (KEY(IR_LD64(H + P_OFF_dth_min + 8ull * h), h) <= KEY(T[i], h)); }
  }
}
static void assert_invariant(void) {
  ASSERT(inv_count, "INVARIANT: dth_count is twice the number of armed timers");
  ASSERT(inv_slots, "INVARIANT: every heap slot holds an armed timer whose heap entry index points back at its slot");
  ASSERT(inv_order, "HEAP ORDER: a parent's key is not larger than its child's key (so the root is the earliest timer)");
  ASSERT(inv_present, "INVARIANT: every armed timer is in the heap (none is lost)");
  ASSERT(inv_min, "ALWAYS-FIRES: dth_min is a true minimum: no armed timer is earlier than the one the kernel timer is programmed for");
}
static void mk(int i) { T[i] = ir_bump(P_SZ_timer_refs); IR_ST32(T[i] + P_OFF_dt_heap_entry, INVALID_ID); IR_ST32(T[i] + P_OFF_dt_heap_entry + 4, INVALID_ID);
  SYM_AT2(in_key, i, 0); SYM_AT2(in_key, i, 1);
#if defined(SYMHEAP) && SYMHEAP != 2
  /* only the keys of heap SYMHEAP are symbolic; the other heap gets concrete keys in its heap order (its comparisons then do not fork paths): the two heaps are sifted independently,
     so root-level sift-downs of >= 3 timers become affordable (one heap at a time) */
  { int o = 1 - SYMHEAP; int pos = i; if (o == 1) { static const int pv[] = PERM; pos = N; for (int j = 0; j < N; j++) if (pv[j] == i) pos = j; } in_key[i][o] = 10ull * (u64)pos + 5; }
#endif
  IR_ST64(T[i] + P_OFF_dt_timer, in_key[i][0]); IR_ST64(T[i] + P_OFF_dt_timer + 8, in_key[i][1]); }
static const int PERMV[] = PERM;
void harness(void) {
  ir_init_globals(); H = ir_bump(P_SZ_heap);
  for (int i = 0; i < NT; i++) mk(i);
  /* segments sized by the real grow routine, then the pre-state is stored through the real slot function */
  for (int g = 0; g < NSEG; g++) _dispatch_timer_heap_grow(H);
  IR_ST32(H + P_OFF_dth_count, 2u * N);
  for (int j = 0; j < N; j++) { present[j] = 1;
    IR_ST64(_dispatch_timer_heap_get_slot(H, (u32)(2 * j)), T[j]); IR_ST32(T[j] + P_OFF_dt_heap_entry, (u32)(2 * j));
    int k = PERMV[j]; IR_ST64(_dispatch_timer_heap_get_slot(H, (u32)(2 * j + 1)), T[k]); IR_ST32(T[k] + P_OFF_dt_heap_entry + 4, (u32)(2 * j + 1)); }
  /* representation invariant of the pre-state (assumed): both heap orders */
  for (int j = 1; j < N; j++) { ASSUME(in_key[(j - 1) / 2][0] <= in_key[j][0]); ASSUME(in_key[PERMV[(j - 1) / 2]][1] <= in_key[PERMV[j]][1]); }
  check_invariant("pre-state");
#if OP == 0      /* insert one more */
  IR_ST8(H + P_OFF_dth_flags, 0);
  u64 oldmin0 = IR_LD64(H + P_OFF_dth_min), oldmin1 = IR_LD64(H + P_OFF_dth_min + 8);
  _dispatch_timer_heap_insert(H, T[N]); present[N] = 1; check_invariant("insert");
  if (IR_LD64(H + P_OFF_dth_min) != oldmin0 || IR_LD64(H + P_OFF_dth_min + 8) != oldmin1) ASSERT(IR_LD8(H + P_OFF_dth_flags) & P_NEEDS_PROGRAM_BIT, "REPROGRAM: when a minimum changes the heap asks for the kernel timer to be re-programmed");
  WITNESS_IF(IR_LD64(H + P_OFF_dth_min) == T[N], "new timer became the earliest");
#elif OP == 1    /* remove any one */
  in_victim = VICTIM; ASSUME(in_victim < N);
  IR_ST8(H + P_OFF_dth_flags, 0); u64 oldmin0 = IR_LD64(H + P_OFF_dth_min), oldmin1 = IR_LD64(H + P_OFF_dth_min + 8);
  _dispatch_timer_heap_remove(H, T[in_victim]); present[in_victim] = 0; check_invariant("remove");
  ASSERT(ENTRY(T[in_victim], 0) == INVALID_ID && ENTRY(T[in_victim], 1) == INVALID_ID, "a removed timer is marked as not in the heap");
  if (N > 1 && (IR_LD64(H + P_OFF_dth_min) != oldmin0 || IR_LD64(H + P_OFF_dth_min + 8) != oldmin1)) ASSERT(IR_LD8(H + P_OFF_dth_flags) & P_NEEDS_PROGRAM_BIT, "REPROGRAM: when a minimum changes the heap asks for the kernel timer to be re-programmed");
  WITNESS_IF(oldmin0 == T[in_victim], "the earliest timer was removed");
#elif OP == 2    /* re-arm one with new keys (dispatch_source_set_timer / interval advance) */
  in_victim = VICTIM; ASSUME(in_victim < N); SYM_AT(in_newkey, 0); SYM_AT(in_newkey, 1);
#if defined(SYMHEAP) && SYMHEAP != 2
  in_newkey[1 - SYMHEAP] = NEWKEY_OTHER;      /* the re-armed timer's key in the concrete heap: case split by the driver (first / middle / last) */
#endif
  IR_ST64(T[in_victim] + P_OFF_dt_timer, in_newkey[0]); IR_ST64(T[in_victim] + P_OFF_dt_timer + 8, in_newkey[1]);
  _dispatch_timer_heap_update(H, T[in_victim]); check_invariant("update");
  WITNESS_IF(IR_LD64(H + P_OFF_dth_min) == T[in_victim], "re-armed timer became the earliest");
#endif
  assert_invariant();
  WITNESS_REACHED("operation completed");
}
