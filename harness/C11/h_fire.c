/* C11 tier S (firing arithmetic and re-configuration): real _dispatch_timer_unote_compute_missed (event_internal.h) and _dispatch_timer_unote_configure (event.c) */
#include "hpre.h"
#include "model.c"
#include "hpost.h"
#include "probe.h"
#define DT IR_HEAP_BASE
void _dispatch_bug(u64 l, u64 v) { ASSERT(0, "_dispatch_bug"); }
u64 ir_dyn_alloca(u64 n) { ASSERT(0, "dynamic alloca"); return 0; }
void libdispatch_tsd_init(void) { }
static int frees; static u64 freed_p; void free(u64 p) { frees++; freed_p = p; }
static int resumes; void _dispatch_timer_unote_resume(u64 dt) { resumes++; }
static u64 in_target, in_deadline, in_interval, in_now, in_prev, in_flags, in_clock, in_pending, in_armed;
#ifdef H_MISSED
void harness(void) {
  ir_init_globals(); ir_heap_next = IR_HEAP_BASE + 512;
  SYM(in_target); SYM(in_deadline); SYM(in_interval); SYM(in_now); SYM(in_prev);
  /* caller contract: the timer is due (target <= now), repeating (interval >= 1); bounded widths keep the divider/multiplier decidable: times < 2^RANGE, interval < 2^IRANGE */
  ASSUME(in_target >= 1 && in_target <= in_now && in_now < (1ull << RANGE) && in_deadline >= in_target && in_deadline < (1ull << RANGE) && in_interval >= 1 && in_interval < (1ull << IRANGE) && in_prev < (1ull << 20));
  IR_ST64(DT + P_OFF_dt_timer, in_target); IR_ST64(DT + P_OFF_dt_timer + 8, in_deadline); IR_ST64(DT + P_OFF_dt_timer + 16, in_interval);
  u64 r = _dispatch_timer_unote_compute_missed(DT, in_now, in_prev);
  u64 fired = r - in_prev, nt = IR_LD64(DT + P_OFF_dt_timer), nd = IR_LD64(DT + P_OFF_dt_timer + 8);
  u64 boundaries = (in_now - in_target) / in_interval + 1;       /* interval boundaries that have passed: target, target+interval, ... <= now */
  ASSERT(fired >= 1 && fired <= boundaries, "NEVER-EARLY: the count reported for a firing is at most the number of interval boundaries that have passed");
  ASSERT(fired == boundaries, "every passed boundary is counted (nothing is lost)");
  ASSERT(nt == in_target + fired * in_interval && nd == in_deadline + fired * in_interval, "the timer advances by whole intervals");
  ASSERT(nt > in_now, "NEVER-EARLY: the next target lies in the future, so the next firing cannot be early");
  ASSERT(IR_LD64(DT + P_OFF_dt_timer + 16) == in_interval, "the interval is unchanged");
  WITNESS_IF(fired >= 3, "several missed intervals"); WITNESS_IF(fired == 1, "exactly on time");
}
#endif
#ifdef H_CONFIGURE
void harness(void) {
  ir_init_globals(); ir_heap_next = IR_HEAP_BASE + 512;
  u64 cfg = ir_bump(P_SZ_timer_config);
  SYM(in_target); SYM(in_deadline); SYM(in_interval); SYM(in_flags); SYM(in_clock); SYM(in_pending); SYM(in_armed); ASSUME(in_clock < 3);
  IR_ST64(cfg, in_target); IR_ST64(cfg + 8, in_deadline); IR_ST64(cfg + 16, in_interval); IR_ST32(cfg + P_OFF_dtc_clock, (u32)in_clock);
  IR_ST64(DT + P_OFF_dt_pending_config, cfg); IR_ST64(DT + P_OFF_ds_pending_data, in_pending); IR_ST8(DT + P_OFF_du_timer_flags, (u8)in_flags);
  IR_ST64(DT + P_OFF_du_state, (in_armed & 1) ? P_DU_STATE_ARMED : 0);
  IR_ST64(DT + P_OFF_dt_timer, 111); IR_ST64(DT + P_OFF_dt_timer + 8, 222); IR_ST64(DT + P_OFF_dt_timer + 16, 333);
  _dispatch_timer_unote_configure(DT);
  ASSERT(IR_LD64(DT + P_OFF_dt_timer) == in_target && IR_LD64(DT + P_OFF_dt_timer + 8) == in_deadline && IR_LD64(DT + P_OFF_dt_timer + 16) == in_interval, "NEW-SETTINGS: after dispatch_source_set_timer the timer follows only the new start, deadline and interval");
  ASSERT(IR_LD64(DT + P_OFF_ds_pending_data) == 0, "NEW-SETTINGS: fire counts accumulated under the old settings are discarded (whatever the clock)");
  ASSERT(IR_LD64(DT + P_OFF_dt_pending_config) == 0 && frees == 1 && freed_p == cfg, "the pending configuration is consumed exactly once");
  ASSERT(((IR_LD8(DT + P_OFF_du_timer_flags) & P_TIMER_CLOCK_MASK) == (in_clock == 0 ? P_CLOCK_FLAG_UPTIME : in_clock == 1 ? P_CLOCK_FLAG_MONO : P_CLOCK_FLAG_WALL)), "the timer is on the clock of the new settings");
  ASSERT((IR_LD8(DT + P_OFF_du_timer_flags) & ~P_TIMER_CLOCK_MASK & 0xff) == (in_flags & ~P_TIMER_CLOCK_MASK & 0xff), "other timer flags are kept");
  ASSERT(resumes == ((in_armed & 1) ? 1 : 0), "an armed timer is re-inserted in the heap with its new keys");
  WITNESS_IF(in_pending != 0, "stale pending data discarded"); WITNESS_IF(in_armed & 1, "armed timer re-armed");
}
#endif
