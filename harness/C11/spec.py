import sys, os
sys.path.insert(0, os.path.join(os.path.dirname(__file__), '..', 'common'))
from vlib import H
from st_probes import ST_PROBES
PR = dict(ST_PROBES); PR.update({'SZ_heap': 'sizeof(struct dispatch_timer_heap_s)', 'OFF_dth_count': 'offsetof(struct dispatch_timer_heap_s, dth_count)', 'OFF_dth_min': 'offsetof(struct dispatch_timer_heap_s, dth_min)',
  'OFF_dth_heap': 'offsetof(struct dispatch_timer_heap_s, dth_heap)', 'OFF_dth_flags': 'offsetof(struct dispatch_timer_heap_s, dth_dirty_bits) + 1', 'NEEDS_PROGRAM_BIT': '2',
  'SZ_timer_refs': 'sizeof(struct dispatch_timer_source_refs_s)', 'OFF_dt_timer': 'offsetof(struct dispatch_timer_source_refs_s, dt_timer)', 'OFF_dt_heap_entry': 'offsetof(struct dispatch_timer_source_refs_s, dt_heap_entry)',
  'OFF_du_priority': 'offsetof(struct dispatch_timer_source_refs_s, du_priority)'})
import itertools
U = ['_dispatch_timer_heap_insert', '_dispatch_timer_heap_remove', '_dispatch_timer_heap_update', '_dispatch_timer_heap_get_slot', '_dispatch_timer_heap_grow']
OPS = {0: 'insert', 1: 'remove', 2: 'update'}
def nseg(n):   # segments needed for 2n slots: capacity(s) = 2 + (8 << (s-1)) - (s-1)
    s_ = 0
    while (2 if s_ == 0 else 2 + (8 << (s_ - 1)) - (s_ - 1)) < 2 * n: s_ += 1
    return s_
def T(n, op, victim=0, perm=None, tiers=('quick', 'thorough'), timeout=900, symheap=2, newkey_other=0):
    perm = perm or tuple(range(n))
    return H('T_heap%d_%s%s_p%s%s' % (n, OPS[op], ('_v%d' % victim) if op else '', ''.join(map(str, perm)), ('_h%d_k%d' % (symheap, newkey_other)) if symheap != 2 else ''), 'h_heap.c', U, stubs=['_dispatch_calloc', 'free', '_dispatch_bug', 'libdispatch_tsd_init'], nt=1, heap=3072, pagewords=4,
             defines=['-DN=%d' % n, '-DOP=%d' % op, '-DVICTIM=%d' % victim, '-DPERM={%s}' % ','.join(map(str, perm)), '-DNSEG=%d' % nseg(n), '-DSYMHEAP=%d' % symheap, '-DNEWKEY_OTHER=%dull' % newkey_other], unwind=10, probes=PR, timeout=timeout, tiers=tiers, mem_gb=20, paths=True, witness_any=True, mode='stop', witness='twin',
             note='arbitrary valid heap of %d timers (deadline-heap order %s), then %s%s with symbolic keys; full invariant before and after' % (n, perm, OPS[op], (' of timer %d' % victim) if op else ''))
def perms(n):
    # deadline-heap arrangements: every permutation (the heap-order assumption prunes nothing structurally)
    return list(itertools.permutations(range(n)))
HARNESSES = []
for n in (1, 2, 3, 4, 5):
    for k, pm in enumerate(perms(n)):
        if n == 5 and k % 7: continue
        quick = n <= 2 or (n == 3 and pm == (0, 1, 2))
        tier = ('quick', 'thorough') if quick else ('thorough',)
        HARNESSES.append(T(n, 0, perm=pm, tiers=tier, timeout=1800))
        for v in range(n):
            # operations on the root of heaps with >= 3 timers (two-level sift-down) need minutes in path mode: thorough tier only
            tv = tier if (n <= 2 or v != 0) else ('thorough',)
            # ... and their complete exploration takes hours (19 240 paths for 3 timers, measured): registered for n = 3 (every arrangement) and the identity arrangement of n = 4 with a 30 min
            # budget each - on the unchanged tree they usually end INCONCLUSIVE (reported as such); a violating path is met early in the depth-first order (this is what catches seeded C11_m1)
            if v == 0 and n >= 3 and not (n == 3 or (n == 4 and pm == tuple(range(n)))): continue
            HARNESSES += [T(n, 1, v, pm, tiers=tv, timeout=1800), T(n, 2, v, pm, tiers=tv, timeout=1800)]
# root-level operations on heaps of 3 (every arrangement) and 4 timers with ONE heap symbolic at a time (the other heap's keys concrete).  Measured: removal of the root of 3 timers finishes in seconds
# (quick tier); a re-arm of a timer that is the root of the symbolic heap (two-children sift-down) still does not finish in 20 min even with one heap concrete - thorough tier, INCONCLUSIVE on the clean tree
for n, pms in ((3, perms(3)), (4, [tuple(range(4)), (0, 2, 1, 3)])):
    for pm in pms:
        for sh in (0, 1):
            HARNESSES.append(T(n, 1, 0, pm, symheap=sh, timeout=1200, tiers=(('quick', 'thorough') if n == 3 else ('thorough',))))
            for nk in (0, 17, 99): HARNESSES.append(T(n, 2, 0, pm, symheap=sh, newkey_other=nk, timeout=1800, tiers=('thorough',)))
# budgeted depth-first exploration in the quick tier: re-arm of the root of 3 timers with BOTH heaps symbolic (two-children sift-down).  The complete exploration takes hours (see above), so on the unchanged
# tree these two end INCONCLUSIVE after their 150 s budget - reported as such, never as a verdict; a violating path is met within seconds (this is what catches the seeded C11_m1 / C11_m3 in the quick tier)
for _pm in ((0, 1, 2), (0, 2, 1)):
    _h = T(3, 2, 0, _pm, timeout=150); _h.name += '_budget150'; _h.note += ' - BUDGETED: depth-first for 150 s, INCONCLUSIVE when the budget ends'; HARNESSES.append(_h)
# crossing the segment boundary (5 -> 6 timers grows, 6 -> 5 shrinks): identity deadline order, in the quick tier
HARNESSES += [T(5, 0), T(6, 1, 5)] + [T(6, 1, 0, tiers=('thorough',), timeout=3000)]
PR2 = dict(PR); PR2.update({'SZ_timer_config': 'sizeof(struct dispatch_timer_config_s)', 'OFF_dtc_clock': 'offsetof(struct dispatch_timer_config_s, dtc_clock)', 'OFF_dt_pending_config': 'offsetof(struct dispatch_timer_source_refs_s, dt_pending_config)',
  'OFF_ds_pending_data': 'offsetof(struct dispatch_timer_source_refs_s, ds_pending_data)', 'OFF_du_timer_flags': 'offsetof(struct dispatch_timer_source_refs_s, du_timer_flags)', 'OFF_du_state': 'offsetof(struct dispatch_timer_source_refs_s, du_state)',
  'DU_STATE_ARMED': 'DU_STATE_ARMED', 'TIMER_CLOCK_MASK': '_DISPATCH_TIMER_CLOCK_MASK', 'CLOCK_FLAG_UPTIME': 'DISPATCH_TIMER_CLOCK_UPTIME', 'CLOCK_FLAG_MONO': 'DISPATCH_TIMER_CLOCK_MONOTONIC', 'CLOCK_FLAG_WALL': 'DISPATCH_TIMER_CLOCK_WALL'})
def F(name, define, units, stubs, note, extra=(), **kw):
    return H(name, 'h_fire.c', units, stubs=['_dispatch_bug', 'libdispatch_tsd_init', 'free'] + stubs, nt=1, heap=1024, defines=['-D' + define] + list(extra), unwind=3, probes=PR2, note=note, **kw)
HARNESSES += [
    F('F_compute_missed_16', 'H_MISSED', ['_dispatch_timer_unote_compute_missed'], [], 'real _dispatch_timer_unote_compute_missed: times < 2^16, interval < 2^8 (SAT divider/multiplier)', extra=['-DRANGE=16', '-DIRANGE=8'], timeout=600, backend='cvc5int'),
    F('F_compute_missed_32', 'H_MISSED', ['_dispatch_timer_unote_compute_missed'], [], 'same, times < 2^32, interval < 2^16', extra=['-DRANGE=32', '-DIRANGE=16'], timeout=600, backend='cvc5int'),
    F('F_compute_missed_48', 'H_MISSED', ['_dispatch_timer_unote_compute_missed'], [], 'same, times < 2^48, interval < 2^24', extra=['-DRANGE=48', '-DIRANGE=24'], timeout=900, backend='cvc5int', tiers=('thorough',)),
    F('F_configure', 'H_CONFIGURE', ['_dispatch_timer_unote_configure'], ['_dispatch_timer_unote_resume'], 'real _dispatch_timer_unote_configure: all new settings, all old flags/pending data, armed or not'),
]
ASSUMPTIONS = ['one heap operation from an arbitrary heap satisfying the representation invariant (induction step: covers histories of any length); heap sizes 1..6 (first two segments), deadline-heap arrangement: every permutation for n<=4, a sample for n=5, identity for the segment-boundary cases',
               'keys are arbitrary 64-bit values (ties included); allocation of heap segments never fails']
LEVEL_TEXT = 'Timer heap: one real insert/remove/update from an ARBITRARY valid heap (induction step) of 1..6 timers - pre-state written directly with symbolic keys assumed to satisfy both heap orders, deadline-heap arrangement case-split over all permutations (n<=4) - explored path by path (cbmc --paths, every pointer concrete per path, keys symbolic): both heap orders, back-pointers, no timer lost, dth_min is the true minimum (the kernel timer is programmed for the earliest timer), re-program requested when a minimum changes. Firing arithmetic: _dispatch_timer_unote_compute_missed (count == passed interval boundaries, next target in the future) decided by cvc5 with bit-vectors as integers for times < 2^32 (thorough 2^48); _dispatch_timer_unote_configure: new settings replace old ones and stale pending data is always discarded. Root removals of 3-timer heaps (every arrangement) with one heap symbolic at a time are in the quick tier.'
LEVEL_NOTE = 'Root-level re-arm (two-children sift-down) of heaps with >= 3 timers does not finish within any practical budget: the quick tier explores it depth-first for 150 s and reports INCONCLUSIVE for those two harnesses (not a verdict), the thorough tier gives them 30 min; _dispatch_timers_run / dispatch_after / epoll programming and the manager thread are not covered; compute_missed only below the stated bit widths.'
