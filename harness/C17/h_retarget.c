/* C17 lemma: the reference a queue holds on its target, across dispatch_set_target_queue on an ACTIVE (legacy, mutable) queue.
   A: real _dispatch_lane_set_target_queue(dq, tq): the retarget is deferred to a barrier on dq (_dispatch_barrier_trysync_or_async_f, recorded by a stub); the reference for the new
      target must have been taken BEFORE the deferral - the caller may drop its own reference to tq as soon as dispatch_set_target_queue returns.
   B: real _dispatch_lane_legacy_set_target_queue(tq) (the deferred barrier body): installs tq, releases the old target exactly once, takes no further reference.
   Reference counts of both targets are symbolic. */
#include "hpre.h"
#include "model.c"
#include "hpost.h"
#include "probe.h"
void _dispatch_bug(u64 l, u64 v) { ASSERT(0, "_dispatch_bug"); }
void _dispatch_bug_deprecated(u64 m) { }
void libdispatch_tsd_init(void) { }
void _dispatch_log(u64 a, ...) { }
void _dispatch_unfair_lock_lock_slow(u64 l, u32 f) { ASSERT(0, "side lock contended"); }
void _dispatch_unfair_lock_unlock_slow(u64 l, u32 f) { ASSERT(0, "side lock contended"); }
void _os_object_dispose(u64 o) { ASSERT(0, "an object lost its last reference in this lemma (the envelope keeps one extra reference on each queue)"); }
void _dispatch_introspection_target_queue_changed(u64 q) { }
static u64 DQ, TQ1, TQ2; static u32 in_ref1, in_ref2; static int deferred; static u64 def_dq, def_ctxt, def_func; static u32 def_flags, ref2_at_deferral;
void _dispatch_barrier_trysync_or_async_f(u64 dq, u64 ctxt, u64 func, u32 flags) { deferred++; def_dq = dq; def_ctxt = ctxt; def_func = func; def_flags = flags; ref2_at_deferral = IR_LD32(TQ2 + P_OFF_ref); }
static u64 mkq(u64 width) { u64 q = ir_bump(P_SZ_lane); u64 vt = ir_bump(P_SZ_vtable); IR_ST64(q + P_OFF_vtable, vt); IR_ST64(vt + P_OFF_vt_type, P_LANE_TYPE);
  IR_ST16(q + P_OFF_dq_width, (u16)width); IR_ST64(q + P_OFF_dq_state, ((0x1000ull - width) << 41) | 0x0000001000000000ull /* ROLE_BASE_ANON */); IR_ST32(q + P_OFF_flags, P_DQF_MUTABLE | (u32)width); return q; }
void harness(void) {
  ir_init_globals(); IR_ST32(TLS___dispatch_tsd(0), 0x104);
  DQ = mkq(1); TQ1 = mkq(1); TQ2 = mkq(1);
  SYM(in_ref1); SYM(in_ref2); ASSUME(in_ref1 >= 1 && in_ref1 < 0x10000000u && in_ref2 < 0x10000000u);      /* biased counts: value n = n+1 references; the old target keeps one besides dq's */
  IR_ST32(TQ1 + P_OFF_ref, in_ref1); IR_ST32(TQ2 + P_OFF_ref, in_ref2); IR_ST32(DQ + P_OFF_ref, 5);
  IR_ST64(DQ + P_OFF_do_targetq, TQ1);
#ifdef H_A
  _dispatch_lane_set_target_queue(DQ, TQ2);
  ASSERT(deferred == 1 && def_dq == DQ && def_ctxt == TQ2 && def_func == FN__dispatch_lane_legacy_set_target_queue, "the retarget of an active queue is deferred to a barrier on that queue");
  ASSERT(def_flags & P_TRYSYNC_SUSPEND, "the deferred retarget suspends the queue while it runs");
  ASSERT(ref2_at_deferral == in_ref2 + 1, "LIFETIME: the reference for the new target is taken before the retarget is deferred (the application may release the target as soon as dispatch_set_target_queue returns; the deferred barrier must not find it freed)");
  ASSERT(IR_LD32(TQ2 + P_OFF_ref) == in_ref2 + 1 && IR_LD32(TQ1 + P_OFF_ref) == in_ref1 && IR_LD64(DQ + P_OFF_do_targetq) == TQ1, "nothing else changes until the barrier runs");
  WITNESS_REACHED("retarget deferred");
#else
  IR_ST64(TLS___dispatch_tsd(0) + P_OFF_tsd_queue, DQ);
  _dispatch_lane_legacy_set_target_queue(TQ2);
  ASSERT(IR_LD64(DQ + P_OFF_do_targetq) == TQ2, "the deferred barrier installs the new target");
  ASSERT(IR_LD32(TQ2 + P_OFF_ref) == in_ref2, "LIFETIME: the barrier takes no further reference on the new target: the one taken by dispatch_set_target_queue becomes the targeting reference");
  ASSERT(IR_LD32(TQ1 + P_OFF_ref) == in_ref1 - 1, "LIFETIME: the old target is released exactly once");
  ASSERT(IR_LD32(DQ + P_OFF_sidelock) == 0, "the side lock is released");
  WITNESS_REACHED("retarget performed");
#endif
}
