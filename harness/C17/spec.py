import sys, os
sys.path.insert(0, os.path.join(os.path.dirname(__file__), '..', 'common'))
from vlib import H
from hist_spec import HH
from seqs import seqs
LT_ENTRIES = ['dispatch_set_context', 'dispatch_set_finalizer_f', 'dispatch_queue_set_specific', 'dispatch_retain']
LT_ICALL = ['_dispatch_lane_dispose', '_dispatch_xref_dispose', '_dispatch_dispose', '_dispatch_queue_specific_head_dispose_slow', '_dispatch_call_block_and_release', '_dispatch_object_no_dispose']
LT_STUBS = ['_dispatch_object_finalize', '_dispatch_introspection_queue_dispose']
def L(seq, **kw):
    extra = ['-DLIFETIME', '-DFINALIZER', '-DIR_CHECK_OBJECTS=1'] + (['-DSPECIFIC'] if kw.pop('specific', False) else [])
    h = HH(seq, extra=extra, real_dispose=True, entries_extra=LT_ENTRIES, icall_extra=LT_ICALL, stubs_extra=LT_STUBS, name_extra='_lt' + ('s' if '-DSPECIFIC' in extra else ''), **kw)
    h.heap = 12288; h.unwindset += ',freed_count.0:17,harness.7:10,harness.8:10,harness.9:10'
    return h
def _one_x(x): return x.count('X') == 1 and all(c in 'RL' for c in x[x.index('X') + 1:])    # nothing may use the queue after the client dropped its reference
_q = [x for x in seqs('asXR', 4, minlen=1, need='X') if _one_x(x)]
HARNESSES = [L(x) for x in _q if len(x) <= 3] + [L(x, specific=True) for x in ('X', 'aX', 'aRX', 'sX')]
HARNESSES += [L(x, chain=True) for x in ('X1', 'aX1', 'X1X', 'XX1', 'aX1X', 'a1X1', 'aXX1', 'a1RX1X', 'sX1X')]
HARNESSES += [L(x, conc=True) for x in ('aX', 'abX', 'aRX', 'sX', 'aaX')]
HARNESSES += [L(x, tiers=('thorough',)) for x in _q if len(x) == 4]
# ---- tier S: the +2 hand-off / suspension references are consumed exactly once (shared lemmas of C01/C04 + one of its own)
from st_probes import ST_PROBES
PRR = dict(ST_PROBES); PRR.update({'SZ_vtable': 'sizeof(struct dispatch_lane_vtable_s)', 'OFF_vt_wakeup': 'offsetof(struct dispatch_lane_vtable_s, _os_obj_vtable.dq_wakeup)', 'OFF_vt_push': 'offsetof(struct dispatch_lane_vtable_s, _os_obj_vtable.dq_push)',
  'TRYSYNC_SUSPEND': 'DISPATCH_BARRIER_TRYSYNC_SUSPEND'})
HARNESSES += [
    H('S_trysync_complete_refs', 'h_refs.c', ['_dispatch_barrier_trysync_or_async_f_complete', '__dispatch_tsd', '_dispatch_lane_wakeup'], stubs=['_dispatch_bug', '_dispatch_set_basepri_override_qos', 'libdispatch_tsd_init', '_dispatch_lane_wakeup', '_dispatch_client_callout'],
      icall_only=['_dispatch_lane_wakeup'], nt=1, heap=1024, unwind=5, probes=PRR, timeout=300, note='real _dispatch_barrier_trysync_or_async_f_complete: the suspension +2 is consumed iff no other suspension remains; a concurrent suspend injected'),
    H('S_reader_complete_refs', '../C04/h_width.c', ['_dispatch_lane_non_barrier_complete', '__dispatch_tsd', '_dispatch_lane_push'], stubs=['_dispatch_bug', '_dispatch_set_basepri_override_qos', 'libdispatch_tsd_init', '_dispatch_release_2_tailcall', '_dispatch_retain_2', '_dispatch_lane_barrier_complete', '_dispatch_lane_push'],
      icall_only=['_dispatch_lane_push'], nt=1, heap=1024, defines=['-DH_NBCOMPLETE'], unwind=5, probes=PRR, timeout=300, note='real _dispatch_lane_non_barrier_complete (+_finish): the re-enqueue takes its +2 unless the caller brought it (reference accounting assertion; shared with C04)'),
    H('S_wakeup_refs', '../C01/h_state.c', ['_dispatch_queue_wakeup', '_dispatch_lane_wakeup', '__dispatch_tsd'], stubs=['_dispatch_bug', '_dispatch_set_basepri_override_qos', 'libdispatch_tsd_init', '_dispatch_queue_push_queue', '_dispatch_release_2_tailcall', '_dispatch_retain_2',
      '_dispatch_queue_wakeup_with_override_slow', '_dispatch_lane_wakeup', '_dispatch_lane_drain_barrier_waiter', '_dispatch_workloop_drain_barrier_waiter'], icall_only=['_dispatch_lane_wakeup'], nt=1, heap=1024, defines=['-DH_WAKEUP'], unwind=5, probes=PRR, timeout=300,
      note='real _dispatch_queue_wakeup: the +2 is taken when the caller did not bring it and consumed exactly once by the push or a release (shared with C01)'),
]
PRT = dict(PRR); PRT.update({'OFF_vt_type': 'offsetof(struct dispatch_lane_vtable_s, _os_obj_vtable.do_type)', 'LANE_TYPE': 'DISPATCH_QUEUE_SERIAL_TYPE', 'DQF_MUTABLE': 'DQF_MUTABLE', 'OFF_tsd_queue': 'offsetof(struct dispatch_tsd, dispatch_queue_key)'})
for _w, _u in (('A', '_dispatch_lane_set_target_queue'), ('B', '_dispatch_lane_legacy_set_target_queue')):
    HARNESSES.append(H('S_retarget_active_refs_' + _w, 'h_retarget.c', [_u, '_dispatch_lane_legacy_set_target_queue', '__dispatch_tsd'], stubs=['_dispatch_bug', '_dispatch_bug_deprecated', 'libdispatch_tsd_init', '_dispatch_log', '_dispatch_unfair_lock_lock_slow', '_dispatch_unfair_lock_unlock_slow',
        '_os_object_dispose', '_dispatch_introspection_target_queue_changed', '_dispatch_barrier_trysync_or_async_f', '_dispatch_lane_resume'], noglobal=['_dispatch_queue_attrs', '_dispatch_mgr_q'], icall_only=['_dispatch_lane_legacy_set_target_queue'], nt=1, heap=2048, defines=['-DH_' + _w], unwind=4, probes=PRT, timeout=300,
        note='dispatch_set_target_queue on an active legacy queue, part %s: %s; reference counts of old and new target symbolic' % (_w, 'the new target is retained before the retarget is deferred' if _w == 'A' else 'the deferred barrier installs the target, releases the old one once, retains nothing')))
# the +2 that dispatch_suspend takes and the last dispatch_resume gives back (shared with C06: same harness file, same lemma)
import importlib.util as _iu
_sp = _iu.spec_from_file_location('spec_C06_shared', os.path.join(os.path.dirname(__file__), '..', 'C06', 'spec.py')); _c06 = _iu.module_from_spec(_sp); _sp.loader.exec_module(_c06)
for _h in _c06.HARNESSES:
    if _h.name in ('S_suspend', 'S_resume'):
        import copy as _copy
        _g = _copy.copy(_h); _g.name = _h.name + '_refs'; _g.file = '../C06/h_susp.c'; _g.note = _h.note + ' (reference part: suspend takes +2 on the first suspension, the last resume hands it to the wakeup or releases it, exactly once)'
        HARNESSES.append(_g)
# a tier-S lemma for the timer heap's reference on the owner source (experiments/h_timer_refs.c: real _dispatch_timer_unote_resume from an arbitrary timer record) is NOT registered: no verdict in 5 min even with the
# heap index and clock case-split (out of memory with them symbolic); C17_m5 stays missed
# tier Q for the race of two first dispatch_queue_set_specific calls (experiments/h_spec_q_tierQ.c) is NOT registered: with the loops unwound far enough cbmc runs out of 25 GB (object table + TAILQ walk + lock loops in resumable form); C17_m6 stays missed
ASSUMPTIONS = ['tier H with real reference counting and disposal (_os_object_retain/release*, _dispatch_xref_dispose, _dispatch_dispose, _dispatch_lane_class_dispose) and the harness object table (bounds + liveness on every heap access: a use after free is an assertion failure)',
               'X = dispatch_release of the client reference, at most once per queue; the finalizer/context are set through dispatch_set_context / dispatch_set_finalizer_f, queue-specific data through dispatch_queue_set_specific',
               'object types other than queues: groups (C07 S_enter/S_notify/S_wake retain/release accounting), data (C13 lifetime harnesses); sources, semaphores and I/O channels are not covered here', 'histories are sequential (see C01 tier H)']
LEVEL_TEXT = 'Tier H with real reference counting and disposal and an object table on every heap access: all histories of submissions followed by dispatch_release of the client reference (serial, concurrent, chained, with finalizer + context and queue-specific data): no access after deallocation, deallocated exactly once after pending work, not deallocated while referenced or targeted by another queue, finalizer exactly once with the context current at that time, queue-specific destructor exactly once. Reference accounting of the +2 hand-off references is asserted in the C01/C04 tier-S lemmas (push-or-release exactly once).'
LEVEL_NOTE = 'Queues only here; groups (C07) and data objects (C13) have their own lifetime assertions; sources, semaphores, I/O channels not covered; sequential histories.'
