/* C17 tier S: the +2 reference that a suspension holds on a queue is consumed exactly once.
   _dispatch_barrier_trysync_or_async_f_complete (the tail of dispatch_set_target_queue / dispatch_queue_set_width on an active queue) drops the suspend count it took;
   it may consume the suspension's +2 only if NO other suspension remains - otherwise the resume of that other suspension will consume it (a second consumer
   over-releases the queue: use after free).  All owner-held states, a concurrent dispatch_suspend injected before the unit's atomic update. */
#define ST_VALID_STEP(prev, nw) ((nw) == (prev) + 0x0400000000000000ull || ((nw) & 0xfc00000000000000ull) == ((prev) & 0xfc00000000000000ull))   /* another thread suspends once more, or leaves the count alone */
#include "st.h"
void _dispatch_bug(u64 l, u64 v) { ASSERT(0, "_dispatch_bug"); }
void _dispatch_set_basepri_override_qos(u32 q) { }
static int wakeups, callouts; static u32 wakeup_flags;
void _dispatch_lane_wakeup(u64 dq, u32 qos, u32 flags) { wakeups++; wakeup_flags = flags; }
void _dispatch_client_callout(u64 c, u64 f) { callouts++; }
static _Bool st_valid(u64 s) { return OWNER(s) == TID && (s & IN_BARRIER) && (s >> 58) >= 1 && (s >> 58) <= 62 && !(s & (INACTIVE | NEEDS_ACTIVATION | HAS_SIDE_SUSPEND)); }
void harness(void) {
  st_setup(); ASSUME(st_valid(in_state)); st_interfere_on = 1;
  u64 vt = ir_bump(P_SZ_vtable); IR_ST64(DQ + P_OFF_vtable, vt); IR_ST64(vt + P_OFF_vt_wakeup, FN__dispatch_lane_wakeup);
  _dispatch_barrier_trysync_or_async_f_complete(DQ, 7, 0x77, (u32)P_TRYSYNC_SUSPEND);
  u64 fin = IR_LD64(ST_ADDR);
  ASSERT(callouts == 1 && wakeups == 1 && st_ntrans == 1, "the mutation runs once, the suspend count is dropped once, the queue is woken once");
  ASSERT((st_last_old >> 58) == (fin >> 58) + 1, "exactly the suspend count taken by the trysync is dropped");
  ASSERT(((wakeup_flags & P_WAKEUP_CONSUME_2) != 0) == ((fin >> 58) == 0), "LIFETIME: the suspension's +2 reference is consumed here exactly when no other suspension remains (otherwise the matching resume consumes it; consuming it twice frees a queue that is still referenced)");
  ASSERT(wakeup_flags & P_WAKEUP_BARRIER_COMPLETE, "the wakeup completes the barrier the trysync holds");
  WITNESS_IF((fin >> 58) >= 1, "another suspension remains"); WITNESS_IF((fin >> 58) == 0, "last suspension dropped");
}
