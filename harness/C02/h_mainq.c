/* C02 tier S (main queue): a synchronous submission to the MAIN queue from a thread that does not own it never runs the item on the caller's thread while the
   queue is held: real dispatch_sync_f / dispatch_barrier_sync_f / dispatch_async_and_wait_f / dispatch_barrier_async_and_wait_f on the real static _dispatch_main_q whose state word is
   ANY word that carries another thread's drain-lock ownership (the thread-bound main queue is owned by the main thread for its whole life; a draining worker owns it
   after dispatch_main()).  The caller must enqueue itself behind what is there and go to sleep; the item must not be invoked inline (it would overlap the running
   main-queue item and overtake the queued ones).  The path ends where the caller would sleep. */
#include "hpre.h"
#include "model.c"
#include "hpost.h"
#include "probe.h"
#define MQ G__dispatch_main_q
#define SELF 0x104ull
#define OTHER 0x208ull
void _dispatch_bug(u64 l, u64 v) { ASSERT(0, "_dispatch_bug"); }
u64 ir_dyn_alloca(u64 n) { ASSERT(0, "dynamic alloca"); return 0; }
void libdispatch_tsd_init(void) { }
void _dispatch_set_basepri_override_qos(u32 q) { }
void _dispatch_queue_wakeup_with_override_slow(u64 dq, u64 st, u32 fl) { }
static int item_runs, pushes, wakeups, slept; static u64 in_state, in_op;
void _dispatch_client_callout(u64 ctxt, u64 f) { if (f == 0x77) { item_runs++; ASSERT(0, "EXCLUSION/ORDER (main queue): a synchronous submission to the main queue runs its item inline on the caller's thread although another thread holds the queue"); } else IR_CALL_V_U64(f, ctxt); }
void _dispatch_main_queue_wakeup(u64 dq, u32 qos, u32 flags) { wakeups++; }
void _dispatch_lane_wakeup(u64 dq, u32 qos, u32 flags) { wakeups++; }
u32 _dispatch_futex_wait(u64 addr, u32 val, u64 ts, u32 flags) { slept++;
  ASSERT(item_runs == 0, "the item has not run when the caller goes to sleep");
  ASSERT(IR_LD64(MQ + P_OFF_items_tail) != 0, "NO-STRANDING: the sleeping caller has enqueued itself on the main queue");
  WITNESS_REACHED("the caller queued itself and sleeps (path ends)"); ASSUME(0); return 0; }
void _dispatch_futex_wake(u64 a, u32 n, u32 f) { }
void _dispatch_unfair_lock_lock_slow(u64 l, u32 f) { ASSERT(0, "uncontended"); } void _dispatch_unfair_lock_unlock_slow(u64 l, u32 c) { ASSERT(0, "uncontended"); }
void harness(void) {
  ir_init_globals(); ir_heap_next = IR_HEAP_BASE + 64; IR_ST32(TLS___dispatch_tsd(0), (u32)SELF);
  SYM(in_state); SYM(in_op); ASSUME(in_op <= 3);
  /* the queue is held by another thread: owner field = OTHER; every other bit of the word is arbitrary except the suspend count / inactive bits (an active, non-suspended queue) and the role bits (kept) */
  u64 st0 = IR_LD64(MQ + P_OFF_dq_state);
  u64 keep = P_ROLE_MASK, mask_free = ~(P_OWNER_MASK | keep | 0xff80000000000000ull /* suspend count, inactive, needs-activation */);
  u64 st = (st0 & keep) | (in_state & mask_free) | OTHER;
  IR_ST64(MQ + P_OFF_dq_state, st);
  ASSERT(IR_LD64(MQ + P_OFF_do_targetq) != 0 && IR_LD16(MQ + P_OFF_dq_width) == 1, "layout guard: the main queue is a serial queue with a target");
  if (in_op == 0) dispatch_sync_f(MQ, 0x1234, 0x77);
  else if (in_op == 1) dispatch_barrier_sync_f(MQ, 0x1234, 0x77);
  else if (in_op == 2) dispatch_async_and_wait_f(MQ, 0x1234, 0x77);
  else dispatch_barrier_async_and_wait_f(MQ, 0x1234, 0x77);
  ASSERT(0, "a synchronous submission to a main queue held by another thread returned without sleeping and without its item having been handed to the owner");
}
