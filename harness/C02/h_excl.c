/* C02 tier S (exclusive acquisition): every synchronous submission API - function and block forms, plain blocks and block objects with private data
   (dispatch_block_create) - on an IDLE serial queue runs its item only while the caller is the queue's exclusive owner: at the moment the body runs the state word
   carries the caller's thread id as drain-lock owner together with IN_BARRIER (a reader-style width reservation would let a second caller in at the same time), and when
   the call returns the word is idle again.  The serial queue is the real static _dispatch_main_q in the state it has after dispatch_main() (not thread bound, unowned). */
#include "hpre.h"
#include "model.c"
#include "hpost.h"
#include "probe.h"
#define MQ G__dispatch_main_q
#define SELF 0x104ull
void _dispatch_bug(u64 l, u64 v) { ASSERT(0, "_dispatch_bug"); }
u64 ir_dyn_alloca(u64 n) { ASSERT(0, "dynamic alloca"); return 0; }
void libdispatch_tsd_init(void) { }
void _dispatch_set_basepri_override_qos(u32 q) { }
void _dispatch_queue_wakeup_with_override_slow(u64 dq, u64 st, u32 fl) { }
void _dispatch_retain_2(u64 o) { } void _dispatch_release_2_tailcall(u64 o) { } void _dispatch_release_2(u64 o) { }
static int bodies; static u64 in_op, in_kind, st_at_body;
static void body_runs(void) { bodies++; st_at_body = IR_LD64(MQ + P_OFF_dq_state);
  ASSERT((st_at_body & P_OWNER_MASK) == (SELF & P_OWNER_MASK) && (st_at_body & P_IN_BARRIER), "EXCLUSION: the item of a synchronous submission to a serial queue runs only while the caller owns the queue exclusively (owner = caller, IN_BARRIER)"); }
void vp_body(u64 blk) { body_runs(); }
void _dispatch_client_callout(u64 ctxt, u64 f) { if (f == 0x77) body_runs(); else IR_CALL_V_U64(f, ctxt); }
void _dispatch_main_queue_wakeup(u64 dq, u32 qos, u32 flags) { _dispatch_lane_wakeup(dq, qos, flags); }     /* after dispatch_main() the main queue's wakeup is the ordinary lane wakeup (real) */
void _dispatch_queue_push_queue(u64 tq, u64 dq, u64 st) { ASSERT(0, "an idle queue with an empty list is not handed to its target"); }
void _dispatch_lane_drain_barrier_waiter(u64 dq, u64 dc, u32 fl, u64 owned) { ASSERT(0, "no waiter queued"); }
u32 _dispatch_futex_wait(u64 addr, u32 val, u64 ts, u32 flags) { ASSERT(0, "an idle queue is acquired without sleeping"); ASSUME(0); return 0; }
void _dispatch_futex_wake(u64 a, u32 n, u32 f) { }
u64 _dispatch_group_create_and_enter_stub;
void dispatch_group_leave(u64 g) { } void _os_object_release_internal(u64 o) { } void _os_object_release_internal_n(u64 o, u16 n) { }
void harness(void) {
  ir_init_globals(); ir_heap_next = IR_HEAP_BASE; IR_ST32(TLS___dispatch_tsd(0), (u32)SELF);
  in_op = OP; in_kind = KIND;      /* case split by the driver (a symbolic choice of the API entry point merges eight call trees: no verdict in 10 min) */
  IR_ST32(MQ + P_OFF_flags, IR_LD32(MQ + P_OFF_flags) & ~(u32)P_DQF_THREAD_BOUND);     /* as after dispatch_main(): an ordinary serial queue drained by workers */
  u64 st0 = IR_LD64(MQ + P_OFF_dq_state); ASSERT((st0 & P_OWNER_MASK) == 0 && IR_LD16(MQ + P_OFF_dq_width) == 1 && IR_LD64(MQ + P_OFF_items_tail) == 0, "layout guard: idle serial queue");
  /* a plain block (kind 1) and a block object with private data (kind 2: marker invoke pointer + dispatch_block_private_data_s behind the block header) */
  u64 PB = ir_bump(P_SZ_block_layout); IR_ST64(PB + P_OFF_block_invoke, FN_vp_body);
  u64 INNER = ir_bump(P_SZ_block_layout); IR_ST64(INNER + P_OFF_block_invoke, FN_vp_body);
  u64 B = ir_bump(P_SZ_block_layout + P_SZ_dbpd), DBPD = B + P_SZ_block_layout;
  IR_ST64(G__dispatch_block_special_invoke, 0xB10C0ull); IR_ST64(B + P_OFF_block_invoke, 0xB10C0ull);
  IR_ST64(DBPD + P_OFF_dbpd_magic, P_DBPD_MAGIC); IR_ST64(DBPD + P_OFF_dbpd_block, INNER); IR_ST64(DBPD + P_OFF_dbpd_group, ir_bump(64));
  u64 w = in_kind == 1 ? PB : B;
  if (in_kind == 0) { if (in_op == 0) dispatch_sync_f(MQ, 0x1234, 0x77); else if (in_op == 1) dispatch_barrier_sync_f(MQ, 0x1234, 0x77); else if (in_op == 2) dispatch_async_and_wait_f(MQ, 0x1234, 0x77); else dispatch_barrier_async_and_wait_f(MQ, 0x1234, 0x77); }
  else { if (in_op == 0) dispatch_sync(MQ, w); else if (in_op == 1) dispatch_barrier_sync(MQ, w); else if (in_op == 2) dispatch_async_and_wait(MQ, w); else dispatch_barrier_async_and_wait(MQ, w); }
  ASSERT(bodies == 1, "SYNC-RETURN: the item ran exactly once before the call returned");
  ASSERT(IR_LD64(MQ + P_OFF_dq_state) == st0, "the queue is idle again when the call returns");
  WITNESS_REACHED("the call returned after running its item"); WITNESS_IF(in_kind == 2 && in_op == 2, "dispatch_async_and_wait with a block object"); WITNESS_IF(in_kind == 0, "function form"); WITNESS_IF(in_kind == 1, "plain block");
}
