import sys, os
sys.path.insert(0, os.path.join(os.path.dirname(__file__), '..', 'common'))
from vlib import H
from st_probes import ST_PROBES
U = ['_dispatch_queue_drain_try_lock', '_dispatch_queue_try_acquire_barrier_sync_and_suspend', '_dispatch_queue_try_reserve_sync_width', '_dispatch_queue_try_acquire_async']
def S(name, define, note, **kw):
    return H(name, 'h_state.c', U + ['__dispatch_tsd'], stubs=['_dispatch_bug', '_dispatch_set_basepri_override_qos', 'libdispatch_tsd_init'], nt=1, heap=1024, defines=['-D' + define], note=note,
             unwind=5, probes=ST_PROBES, timeout=300, **kw)
HARNESSES = [
    S('S_drain_try_lock', 'H_LOCK', 'real _dispatch_queue_drain_try_lock: all 2^64 states x widths 1..4094, <=2 interfering updates'),
    S('S_barrier_sync_fastpath', 'H_BSYNC', 'real _dispatch_queue_try_acquire_barrier_sync_and_suspend: all states'),
    S('S_reserve_sync_width', 'H_RSYNC', 'real _dispatch_queue_try_reserve_sync_width: all states, symbolic tail'),
    S('S_acquire_async', 'H_ASYNC', 'real _dispatch_queue_try_acquire_async: all states'),
    S('S_held_excludes_all', 'H_HELD', 'summary lemma: owner+IN_BARRIER held by another thread => all four acquisitions fail'),
]
HARNESSES.append(H('S_mainq_sync_held', 'h_mainq.c', ['dispatch_sync_f', 'dispatch_barrier_sync_f', 'dispatch_async_and_wait_f', 'dispatch_barrier_async_and_wait_f', '_dispatch_main_q', '__dispatch_tsd'],
    stubs=['_dispatch_bug', 'libdispatch_tsd_init', '_dispatch_set_basepri_override_qos', '_dispatch_queue_wakeup_with_override_slow', '_dispatch_client_callout', '_dispatch_main_queue_wakeup', '_dispatch_lane_wakeup', '_dispatch_futex_wait', '_dispatch_futex_wake',
           '_dispatch_unfair_lock_lock_slow', '_dispatch_unfair_lock_unlock_slow'],
    noglobal=['_dispatch_queue_attrs', '_dispatch_mgr_q'], icall_only=['_dispatch_main_queue_push', '_dispatch_main_queue_wakeup', '_dispatch_lane_push', '_dispatch_lane_wakeup', '_dispatch_async_and_wait_invoke', '_dispatch_sync_function_invoke'],
    nt=1, heap=1024, unwind=5, probes=ST_PROBES, timeout=600, witness_any=True,
    note='real dispatch_sync_f / barrier_sync_f / async_and_wait_f / barrier_async_and_wait_f on the real _dispatch_main_q held by another thread (all other state bits arbitrary): the item is never run inline; the caller enqueues itself and sleeps'))
PRX = dict(ST_PROBES); PRX.update({'SZ_block_layout': 'sizeof(struct Block_layout)', 'OFF_block_invoke': 'offsetof(struct Block_layout, invoke)', 'SZ_dbpd': 'sizeof(struct dispatch_block_private_data_s)',
  'OFF_dbpd_magic': 'offsetof(struct dispatch_block_private_data_s, dbpd_magic)', 'OFF_dbpd_block': 'offsetof(struct dispatch_block_private_data_s, dbpd_block)', 'OFF_dbpd_group': 'offsetof(struct dispatch_block_private_data_s, dbpd_group)',
  'DBPD_MAGIC': 'DISPATCH_BLOCK_PRIVATE_DATA_MAGIC', 'DQF_THREAD_BOUND': 'DQF_THREAD_BOUND'})
for _op in range(4):
  for _kind in range(3):
    HARNESSES.append(H('S_serial_sync_exclusive_%s_%s' % (['sync', 'barrier_sync', 'async_and_wait', 'barrier_async_and_wait'][_op], ['f', 'block', 'blockobj'][_kind]), 'h_excl.c', ['dispatch_sync_f', 'dispatch_barrier_sync_f', 'dispatch_async_and_wait_f', 'dispatch_barrier_async_and_wait_f', 'dispatch_sync', 'dispatch_barrier_sync', 'dispatch_async_and_wait', 'dispatch_barrier_async_and_wait',
     '_dispatch_main_q', '_dispatch_block_special_invoke', '_dispatch_lane_wakeup', '__dispatch_tsd'],
    stubs=['_dispatch_bug', 'libdispatch_tsd_init', '_dispatch_set_basepri_override_qos', '_dispatch_queue_wakeup_with_override_slow', '_dispatch_client_callout', '_dispatch_main_queue_wakeup', '_dispatch_queue_push_queue', '_dispatch_lane_drain_barrier_waiter', '_dispatch_futex_wait', '_dispatch_futex_wake',
           '_dispatch_retain_2', '_dispatch_release_2_tailcall', '_dispatch_release_2', 'dispatch_group_leave', '_os_object_release_internal', '_os_object_release_internal_n'],
    noglobal=['_dispatch_queue_attrs', '_dispatch_mgr_q'], icall_only=['_dispatch_async_and_wait_invoke', '_dispatch_sync_function_invoke', '_dispatch_block_sync_invoke', '_dispatch_call_block_and_release', '_dispatch_main_queue_wakeup', '_dispatch_lane_wakeup'], harness_fns={'vp_body': ('void', ['u64'])},
    nt=1, heap=2048, unwind=5, probes=PRX, timeout=600, witness_any=True, defines=['-DOP=%d' % _op, '-DKIND=%d' % _kind],
    note='every synchronous submission API (function / plain block / block object with private data) on an idle serial queue: the body runs only while the caller is the exclusive owner; idle again on return'))
# ---- tier H: histories on one serial queue (shared harness): FIFO, one at a time, and nested submissions by a second client thread while an item is running
from hist_spec import HH
from seqs import seqs
_q = seqs('aswBR', 3, minlen=2)
_nested = ['%s^%s' % (o, i) for o in 'swBa' for i in 'swB'] + ['a%s^%s' % (o, i) for o in 'sw' for i in 'sw'] + ['%s^%sa' % (o, i) for o in 'sw' for i in 'sw']
HARNESSES += [HH(x) for x in _q] + [HH(x) for x in _nested]
HARNESSES += [HH(x, tiers=('thorough',)) for x in seqs('abswBR', 4, minlen=4)]
# a serial queue targeting the real thread-bound MAIN queue (drained by the main thread through _dispatch_main_queue_callback_4CF), and the main queue addressed directly (level 1)
_mq = ['a', 's', 'as', 'sa', 'a1', 's1', 'a1s1', 'a1a1', 'as1', 'a1s', 'aRs', 'w', 'w1', 'a1w1', 'B1', 'a1Ra1', 'sas', 'a1a1s1', 'a^s1', 'a1^s']
HARNESSES += [HH(x, mainq=True) for x in _mq]
ASSUMPTIONS = ['tier S: one call of one real state-machine function from an arbitrary 64-bit state word and arbitrary width in [1,4094]; before each atomic access to the word another thread may replace it by any value of the stated envelope (at most 2 times) - this models CAS interference',
               'QoS-override side paths (_dispatch_queue_override_self) are excluded: states with role BASE_ANON and max-QoS > 0 are outside the drain_try_lock lemma',
               'rmw retry loops unwound 5 times with unwinding assertions (2 interferences need at most 3 iterations)']
LEVEL_TEXT = 'Tier S: all four ways of acquiring a queue (drain lock, barrier-sync fast path, sync reader width, async width) from all 2^64 state words and widths with bounded interference: the exclusion lemma (nothing is acquired while another owner holds the queue in barrier mode; the barrier-sync fast path only from the completely idle word; readers never overtake queued items). Tier H: all sequences up to length 3 (thorough 4) of async/sync/barrier_sync/async_and_wait/worker on a serial queue with FIFO and one-at-a-time assertions, plus nested histories in which a second client thread submits synchronously while an item is running (overlap would be an assertion failure). Main queue: every synchronous submission API on the real static _dispatch_main_q held by another thread (all other state bits arbitrary) enqueues and sleeps, never runs its item inline; on an idle serial queue every synchronous API in its function, plain-block and block-object (dispatch_block_create) form runs the item only while the caller is the exclusive owner (owner = caller, IN_BARRIER) and leaves the queue idle. Histories also on a serial queue targeting the real thread-bound MAIN queue and on the main queue itself: the run-loop poke is a recorded hand-off and the main thread (model thread 1) drains with the real _dispatch_main_queue_callback_4CF / _dispatch_main_queue_drain; synchronous items submitted from another thread are run remotely by the main thread.'
LEVEL_NOTE = 'Sequential histories; a second client that has to sleep ends its path (everything before is checked); interference bound 2; QoS override side paths excluded; the run-loop handle (eventfd) of the main queue is a stub: a poke is a recorded hand-off; dispatch_main() (unbinding the main queue) is not exercised in histories.'