/* C02 tier S: every way of acquiring a queue for execution, from ALL 2^64 state words and all widths, with bounded interference.
   Oracles are written from the documentation of the state word (queue_internal.h), not from the code of the units. */
#include "st.h"
void _dispatch_bug(u64 l, u64 v) { ASSERT(0, "_dispatch_bug"); }
void _dispatch_set_basepri_override_qos(u32 q) { }
/* in flight relative to the queue's width (negative cannot happen in a real history; the lemma does not need to exclude it) */
static s64 in_flight(u64 s, u64 w) { return (s64)WFIELD(s) - (s64)(WIDTH_FULL - w); }
static _Bool lock_must_fail(u64 s) { return s >= FULL_BIT /* suspended, inactive, in barrier, or no width left */ || OWNER(s) != 0 || (s & ENQUEUED_ON_MGR); }
static u64 in_tail, in_suspend;

#ifdef H_LOCK
/* interference envelope: the ENQUEUED bit belongs to the invoking thread (it popped the queue from its target), nobody else clears it */
static _Bool st_valid(u64 s) { return (s & ENQUEUED) != 0; }
void harness(void) {
  st_setup(); ASSUME(st_valid(in_state)); st_interfere_on = 1;
  /* no QoS override business: base priority floor is unspecified (0) in the TSD, so needs_lock_override is false for qos 0 states only */
  ASSUME(!((in_state & ROLE_BASE_ANON) && QOS(in_state) > 0));
  u64 owned = _dispatch_queue_drain_try_lock(DQ, 0);
  u64 now = IR_LD64(ST_ADDR);
  if (owned == 0) {
    ASSERT(st_ntrans <= 1, "a failed lock attempt changes the state word at most once");
    if (st_ntrans == 1) { ASSERT(lock_must_fail(st_last_old), "the lock is refused only if an owner, a barrier, full width, suspension or manager-enqueue is present");
                          ASSERT(st_last_new == (st_last_old ^ ENQUEUED), "a refused lock only drops the ENQUEUED bit the invoker owned"); }
    WITNESS_IF(st_ntrans == 1 && OWNER(st_last_old) != 0, "refused because of an owner");
    WITNESS_IF(st_ntrans == 1 && IS_SUSPENDED(st_last_old), "refused because suspended");
  } else {
    u64 o = st_last_old, n = st_last_new;
    ASSERT(st_ntrans >= 1 && !lock_must_fail(o), "EXCLUSION: the drain lock is never granted while another owner, a barrier, full width or a suspension is present");
    ASSERT(OWNER(n) == TID, "the new owner is the calling thread");
    ASSERT(n & FULL_BIT, "the drainer reserves all remaining width");
    ASSERT(!(n & DIRTY), "acquiring the drain lock clears DIRTY");
    ASSERT((n & PRESERVED_BITS) == (o & PRESERVED_BITS), "role, max-QoS and enqueued bits are preserved");
    ASSERT(!(n & (SUSPEND_BITS | PENDING_BARRIER | SYNC_TRANSFER)), "no suspend/pending-barrier/sync-transfer bits appear");
    _Bool barrier = (o & PENDING_BARRIER) || in_flight(o, in_width) <= 0;
    ASSERT(((n & IN_BARRIER) != 0) == barrier, "IN_BARRIER is taken exactly when nothing is in flight or a barrier was pending");
    ASSERT(owned == (barrier ? IN_BARRIER : 0) + ENQUEUED + (WIDTH_FULL - WFIELD(o)) * WIDTH_INTERVAL, "the returned ownership is the remaining width plus the barrier and enqueued bits");
    if (in_width == 1) ASSERT((n & IN_BARRIER) || in_flight(o, 1) > 0, "a serial queue is always locked in barrier mode");
    WITNESS_IF(in_width == 1 && (n & IN_BARRIER), "serial queue locked");
    WITNESS_IF(in_width > 1 && !(n & IN_BARRIER), "concurrent queue locked with readers in flight");
    WITNESS_IF(st_ninterfere == 2 && (in_do_interfere[0] & 1) && (in_do_interfere[1] & 1), "lock granted after two interfering updates");
  }
}
#endif

#ifdef H_BSYNC
static _Bool st_valid(u64 s) { return 1; }
void harness(void) {
  st_setup(); st_interfere_on = 1; SYM(in_suspend); ASSUME(in_suspend <= 1);
  _Bool ok = _dispatch_queue_try_acquire_barrier_sync_and_suspend(DQ, TID, in_suspend);
  if (ok) {
    u64 o = st_last_old, n = st_last_new, role = o & ROLE_MASK;
    ASSERT(o == (INIT_STATE(in_width) | role), "EXCLUSION/ORDER: the barrier-sync fast path succeeds only from the completely idle state (no owner, nothing in flight, not dirty, not enqueued, not suspended)");
    ASSERT(n == (FULL_BIT | IN_BARRIER | TID | in_suspend * SUSPEND_INTERVAL | role), "it takes the full width in barrier mode for the caller");
    ASSERT(st_ntrans == 1, "exactly one update");
    WITNESS_REACHED("fast path taken");
  } else {
    ASSERT(st_ntrans == 0, "a refused fast path leaves the state word untouched");
    ASSERT(st_last_seen != (INIT_STATE(in_width) | (st_last_seen & ROLE_MASK)), "the fast path is refused only when the queue is not idle");
    WITNESS_REACHED("fast path refused");
  }
}
#endif

#ifdef H_RSYNC
static _Bool st_valid(u64 s) { return 1; }
static _Bool reader_ok(u64 s) { return s < IN_BARRIER && !(s & DIRTY) && !(s & PENDING_BARRIER); }
void harness(void) {
  st_setup(); st_interfere_on = 1; SYM(in_tail); IR_ST64(DQ + P_OFF_items_tail, in_tail);
  _Bool ok = _dispatch_queue_try_reserve_sync_width(DQ);
  if (ok) {
    ASSERT(in_tail == 0, "ORDER: a sync reader never takes width while items are queued ahead of it");
    ASSERT(reader_ok(st_last_old), "EXCLUSION: a sync reader is admitted only when not suspended, not in a barrier, no barrier pending, and the queue is not dirty");
    ASSERT(st_last_new == st_last_old + WIDTH_INTERVAL && st_ntrans == 1, "it takes exactly one unit of width");
    WITNESS_REACHED("reader admitted");
  } else {
    ASSERT(st_ntrans == 0, "a refused reader leaves the state word untouched");
    ASSERT(in_tail != 0 || !reader_ok(st_last_seen), "a reader is refused only for one of the documented reasons");
    WITNESS_IF(in_tail == 0, "reader refused because of the state");
  }
}
#endif

#ifdef H_ASYNC
static _Bool st_valid(u64 s) { return 1; }
static _Bool async_ok(u64 s) { return s < FULL_BIT && !(s & DIRTY) && !(s & PENDING_BARRIER); }
void harness(void) {
  st_setup(); st_interfere_on = 1;
  _Bool ok = _dispatch_queue_try_acquire_async(DQ);
  if (ok) {
    ASSERT(async_ok(st_last_old), "EXCLUSION: redirected async width is granted only when runnable, not dirty and no barrier pending");
    ASSERT(st_last_new == st_last_old + WIDTH_INTERVAL && st_ntrans == 1, "it takes exactly one unit of width");
    WITNESS_REACHED("async width granted");
  } else {
    ASSERT(st_ntrans == 0, "a refused acquisition leaves the state word untouched");
    ASSERT(!async_ok(st_last_seen), "refused only for one of the documented reasons");
    WITNESS_REACHED("async width refused");
  }
}
#endif

#ifdef H_HELD
/* the summary lemma of C02: while some thread holds the queue exclusively (owner + IN_BARRIER, as every serial drainer and every barrier does),
   none of the four acquisition paths can succeed, whatever else the word contains, and the word is left alone (modulo the invoker's ENQUEUED bit) */
static _Bool st_valid(u64 s) { return (s & IN_BARRIER) && OWNER(s) != 0 && OWNER(s) != TID; }
static u64 in_which;
void harness(void) {
  st_setup(); ASSUME(st_valid(in_state)); st_interfere_on = 1; SYM(in_which); ASSUME(in_which < 4);
  u64 before = in_state; _Bool got = 0;
  if (in_which == 0) { ASSUME(in_state & ENQUEUED); ASSUME(!((in_state & ROLE_BASE_ANON) && QOS(in_state) > 0)); got = _dispatch_queue_drain_try_lock(DQ, 0) != 0; }
  else if (in_which == 1) got = _dispatch_queue_try_acquire_barrier_sync_and_suspend(DQ, TID, 0);
  else if (in_which == 2) { IR_ST64(DQ + P_OFF_items_tail, 0); got = _dispatch_queue_try_reserve_sync_width(DQ); }
  else got = _dispatch_queue_try_acquire_async(DQ);
  ASSERT(!got, "EXCLUSION: nothing can be acquired on a queue that another thread holds in barrier mode");
  u64 now = IR_LD64(ST_ADDR);
  ASSERT(OWNER(now) != TID && (now & IN_BARRIER), "the holder's ownership is untouched by failed attempts");
  WITNESS_IF(in_which == 0, "lock attempt");  WITNESS_IF(in_which == 3, "async attempt");
}
#endif
