/* C01 tier S: the hand-off protocol on the state word.  One real function per lemma, ALL 2^64 state words (within the stated caller contract),
   all widths, bounded interference.  The lemmas together are the "no lost wake-up" invariant:
     whoever makes the queue non-empty sets DIRTY and either enqueues the queue or leaves it to an owner;
     an owner can only leave without re-checking if DIRTY was clear at the instant it released the lock. */
/* while the calling thread owns the drain lock, other threads never clear DIRTY (only lock owners do) */
#ifdef H_DRAINNB   /* ... and nobody but the owner enters or leaves barrier mode */
#define ST_VALID_STEP(prev, nw) ((!((prev) & DIRTY) || ((nw) & DIRTY)) && (((prev) ^ (nw)) & IN_BARRIER) == 0)
#else
#define ST_VALID_STEP(prev, nw) (!((prev) & DIRTY) || ((nw) & DIRTY))
#endif
#include "st.h"
void _dispatch_bug(u64 l, u64 v) { ASSERT(0, "_dispatch_bug"); }
static u32 basepri_override;
void _dispatch_set_basepri_override_qos(u32 q) { basepri_override = q; }
static int pushes, releases2, retains2, override_slow; static u64 push_state, push_tq;
void _dispatch_queue_push_queue(u64 tq, u64 dq, u64 st) { ASSERT(dq == DQ, "push of another queue"); pushes++; push_state = st; push_tq = tq; }
void _dispatch_release_2_tailcall(u64 o) { releases2++; }
void _dispatch_retain_2(u64 o) { retains2++; }
void _dispatch_queue_wakeup_with_override_slow(u64 a, u64 b, u32 c) { override_slow++; }
static int wakeups; static u32 wakeup_flags;
void _dispatch_lane_wakeup(u64 dq, u32 qos, u32 flags) { wakeups++; wakeup_flags = flags; }
static u64 in_owned_w, in_done, in_qos, in_consume2, in_target, in_enq_owned;
static _Bool st_valid(u64 s);

#ifdef H_UNLOCK
/* caller contract: the calling thread is the drain-lock owner and gives back `owned` = [IN_BARRIER] + m width units + [ENQUEUED] that it really holds.
   other threads may change everything except what the owner holds */
static u64 owned_c;
static _Bool st_valid(u64 s) { return OWNER(s) == TID && (s & IN_BARRIER) >= (owned_c & IN_BARRIER) && (s & ENQUEUED) >= (owned_c & ENQUEUED) && WFIELD(s) >= ((owned_c & WIDTH_MASK) >> WIDTH_SHIFT); }
void harness(void) {
  st_setup(); SYM(in_owned_w); SYM(in_done); SYM(in_enq_owned); ASSUME(in_owned_w <= 0x1fff);
  owned_c = in_owned_w * WIDTH_INTERVAL + ((in_owned_w >> 13 | in_done >> 1) & 1 ? IN_BARRIER : 0) + ((in_enq_owned & 1) ? ENQUEUED : 0);
  in_done &= 1;
  ASSUME(st_valid(in_state)); st_interfere_on = 1;
  _Bool ok = _dispatch_queue_drain_try_unlock(DQ, owned_c, in_done);
  u64 now = IR_LD64(ST_ADDR), o = st_last_old, n = st_last_new;
  ASSERT(st_ntrans == 1, "exactly one atomic update of the state word");
  if (!ok) {
    ASSERT((st_last_seen & DIRTY) && !IS_SUSPENDED(st_last_seen), "HAND-OFF: unlock is refused exactly because DIRTY was seen on a non-suspended queue");
    ASSERT(n == (o ^ DIRTY) && (o & DIRTY), "a refused unlock only consumes the DIRTY bit");
    ASSERT(OWNER(n) == TID, "a refused unlock leaves the owner in place (the drainer must look at the list again)");
    WITNESS_REACHED("unlock refused (dirty)");
  } else {
    ASSERT(IS_SUSPENDED(o) || !(o & DIRTY), "HAND-OFF: the drain lock is never released past a DIRTY bit (unless the queue is suspended, where resume re-drives it)");
    ASSERT(OWNER(n) == 0 && !(n & (SYNC_TRANSFER | RECEIVED_OVERRIDE)), "a successful unlock clears owner, sync-transfer and override bits");
    ASSERT(((n ^ (o - owned_c)) & ~(UNLOCK_MASK | DIRTY | MAX_QOS_MASK)) == 0, "exactly the owned width/barrier/enqueued bits are given back");
    if (IS_SUSPENDED(o)) ASSERT((n & (DIRTY | MAX_QOS_MASK)) == (o & (DIRTY | MAX_QOS_MASK)), "suspended: dirty and QoS are left for resume");
    else if (in_done) ASSERT(!(n & MAX_QOS_MASK) && !(n & DIRTY), "done: QoS is reset, queue stays clean");
    else ASSERT((n & DIRTY) && (n & MAX_QOS_MASK) == (o & MAX_QOS_MASK), "not done: the queue is left DIRTY so that the re-enqueue re-examines it");
    WITNESS_IF(!IS_SUSPENDED(o) && in_done, "clean unlock");
    WITNESS_IF(IS_SUSPENDED(o), "unlock of a suspended queue");
  }
}
#endif

#ifdef H_WAKEUP
/* _dispatch_queue_wakeup(dq, qos, MAKE_DIRTY [|CONSUME_2], TARGET): what every enqueuer that found the list empty calls */
static _Bool st_valid(u64 s) { return 1; }
void harness(void) {
  st_setup(); SYM(in_qos); SYM(in_consume2); ASSUME(in_qos <= 6); in_consume2 &= 1; st_interfere_on = 1;
  ASSUME(!(in_state & ROLE_BASE_WLH));   /* kevent workloops do not exist in this build */
  IR_ST32(DQ + P_OFF_priority, 0);       /* no priority floor: _dispatch_queue_wakeup_qos keeps qos (0 -> fallback default) */
  _dispatch_queue_wakeup(DQ, (u32)in_qos, (u32)(P_WAKEUP_MAKE_DIRTY | (in_consume2 ? P_WAKEUP_CONSUME_2 : 0)), 1 /* DISPATCH_QUEUE_WAKEUP_TARGET */);
  u64 o = st_last_old, n = st_last_new;
  ASSUME(!(o & ROLE_BASE_WLH));
  ASSERT(st_ntrans == 1, "exactly one atomic update");
  ASSERT(n & DIRTY, "HAND-OFF: the enqueuer always leaves DIRTY set");
  _Bool must_enqueue = !IS_SUSPENDED(o) && !(o & (ENQUEUED | ENQUEUED_ON_MGR)) && OWNER(o) == 0;
  ASSERT(((n & ENQUEUED) && !(o & ENQUEUED)) == must_enqueue, "HAND-OFF: the queue is enqueued on its target exactly when nobody else is responsible for it (not suspended, not already enqueued, no owner)");
  ASSERT(pushes == (must_enqueue ? 1 : 0), "the push to the target queue is issued exactly when the ENQUEUED bit was taken");
  if (pushes) ASSERT(push_tq == TQ && (push_state & ENQUEUED), "pushed to the queue's own target with the enqueued state");
  ASSERT(must_enqueue || OWNER(o) != 0 || IS_SUSPENDED(o) || (o & (ENQUEUED | ENQUEUED_ON_MGR)), "never neither: if no push happened, an owner, a suspension or an earlier enqueue covers the item");
  ASSERT(QOS(n) >= QOS(o) && QOS(n) >= in_qos, "max QoS only grows and covers the requested QoS");
  ASSERT(((n ^ o) & ~(DIRTY | ENQUEUED | MAX_QOS_MASK | RECEIVED_OVERRIDE)) == 0, "no other bit changes (a suspended queue stays suspended, the owner stays)");
  ASSERT(retains2 == (in_consume2 ? 0 : 1), "the +2 reference is taken when the caller did not bring it");
  ASSERT(pushes + releases2 == 1, "the +2 reference is consumed exactly once: by the push or by a release");
  WITNESS_IF(pushes == 1, "queue enqueued"); WITNESS_IF(pushes == 0 && OWNER(o) != 0, "left to the owner"); WITNESS_IF(IS_SUSPENDED(o), "suspended queue not enqueued");
}
#endif

#ifdef H_FINISH
/* _dispatch_queue_invoke_finish without a barrier waiter: the drainer stops early (tq != NULL) and must re-enqueue */
static u64 owned_c;
static _Bool st_valid(u64 s) { return OWNER(s) == TID && (s & IN_BARRIER) >= (owned_c & IN_BARRIER) && (s & ENQUEUED) >= (owned_c & ENQUEUED) && WFIELD(s) >= ((owned_c & WIDTH_MASK) >> WIDTH_SHIFT); }
void harness(void) {
  st_setup(); SYM(in_owned_w); SYM(in_enq_owned); ASSUME(in_owned_w <= 0x1fff);
  owned_c = (in_owned_w & 0xfff) * WIDTH_INTERVAL + ((in_owned_w >> 12) & 1 ? IN_BARRIER : 0) + ((in_enq_owned & 1) ? ENQUEUED : 0);
  ASSUME(st_valid(in_state)); ASSUME(!(in_state & ROLE_BASE_WLH)); st_interfere_on = 1;
  u64 dic = ir_bump(64);    /* dispatch_invoke_context_s, zeroed: no barrier waiter */
  _dispatch_queue_invoke_finish(DQ, dic, TQ, owned_c);
  u64 o = st_last_old, n = st_last_new;
  ASSUME(!(o & ROLE_BASE_WLH));
  ASSERT(st_ntrans == 1, "exactly one atomic update");
  ASSERT(OWNER(n) == 0 && (n & DIRTY), "the lock is released and the queue is left DIRTY");
  u64 rel = (o - owned_c) & ~UNLOCK_MASK;
  _Bool re = rel < FULL_BIT && !(rel & (ENQUEUED | ENQUEUED_ON_MGR));
  ASSERT(((n & ENQUEUED) != 0) == (re || (rel & ENQUEUED)), "HAND-OFF: a runnable queue that is not enqueued is re-enqueued at once");
  ASSERT(pushes == (re ? 1 : 0) && pushes + releases2 == 1, "push issued exactly when ENQUEUED was taken; otherwise the reference is dropped");
  WITNESS_IF(pushes == 1, "re-enqueued"); WITNESS_IF(pushes == 0, "not re-enqueued (suspended or full)");
}
#endif

#ifdef H_BCOMPLETE
/* _dispatch_lane_class_barrier_complete: the end of every barrier / serial sync item. target NONE (nothing queued) or TARGET (items queued: async hand-off) */
static u64 owned_c;
static _Bool st_valid(u64 s) { return OWNER(s) == TID && (s & IN_BARRIER) && WFIELD(s) >= ((owned_c & WIDTH_MASK) >> WIDTH_SHIFT) && !(s & ENQUEUED_ON_MGR); }
void harness(void) {
  st_setup(); SYM(in_target); SYM(in_qos); ASSUME(in_qos <= 6); in_target &= 1;
  owned_c = IN_BARRIER + in_width * WIDTH_INTERVAL;
  ASSUME(st_valid(in_state)); ASSUME(!(in_state & ROLE_BASE_WLH)); st_interfere_on = 1;
  /* object header: vtable whose wakeup slot is the (stubbed) lane wakeup */
  u64 vt = ir_bump(P_SZ_vtable); IR_ST64(DQ + P_OFF_vtable, vt); IR_ST64(vt + P_OFF_vt_wakeup, FN__dispatch_lane_wakeup);
  _dispatch_lane_class_barrier_complete(DQ, (u32)in_qos, (u32)(in_target ? P_WAKEUP_CONSUME_2 : 0), in_target, owned_c);
  u64 o = st_last_old, n = st_last_new;
  ASSUME(!(o & ROLE_BASE_WLH));
  if (wakeups) {
    ASSERT(!in_target && (st_last_seen & DIRTY) && !IS_SUSPENDED(st_last_seen), "HAND-OFF: completion is retried (lock kept) exactly when DIRTY was seen on a non-suspended queue and nothing was known to be queued");
    ASSERT(n == (o ^ DIRTY) && (o & DIRTY) && OWNER(n) == TID && (n & IN_BARRIER), "the retry keeps the barrier ownership and consumes DIRTY");
    ASSERT(wakeup_flags & P_WAKEUP_BARRIER_COMPLETE, "the retry re-enters barrier completion");
    ASSERT(pushes == 0, "no push on the retry path");
    WITNESS_REACHED("barrier completion retried because of DIRTY");
  } else {
    ASSERT(st_ntrans == 1, "one atomic update");
    ASSERT(OWNER(n) == 0 && !(n & IN_BARRIER), "the barrier ownership is released");
    ASSERT(in_target || IS_SUSPENDED(o) || !(o & DIRTY), "HAND-OFF: the barrier is never released past a DIRTY bit without an enqueue");
    if (in_target && !IS_SUSPENDED(o)) {
      ASSERT(n & ENQUEUED, "with items queued the queue ends up enqueued on its target");
      ASSERT(pushes == ((o & ENQUEUED) ? 0 : 1), "and is pushed unless it already was enqueued");
    } else ASSERT(pushes == 0, "no push when nothing is queued or the queue is suspended");
    ASSERT(WFIELD(n) == WFIELD(o) - in_width, "the full width is given back");
    WITNESS_IF(pushes == 1, "async hand-off push"); WITNESS_IF(!in_target && !IS_SUSPENDED(o), "clean release"); WITNESS_IF(IS_SUSPENDED(o), "release while suspended");
  }
}
#endif
#ifdef H_DRAINNB
/* _dispatch_lane_drain_non_barriers: a barrier owner on a concurrent queue finds a non-barrier item at the head: it leaves barrier mode, redirects the item and gives the
   queue up.  One plain asynchronous item is queued; other threads may set DIRTY (they pushed something) at any of the unit's atomic steps. */
static int redirects;
void _dispatch_continuation_redirect_push(u64 dq, u64 dc, u32 qos) { redirects++; }
void _dispatch_lane_barrier_complete(u64 dq, u32 qos, u32 flags) { ASSERT(0, "barrier completion is not reached when nothing is left queued"); }
u64 _dispatch_wait_for_enqueuer(u64 p) { ASSERT(0, "no enqueuer is in flight in this lemma"); return IR_LD64(p); }
void _dispatch_non_barrier_waiter_redirect_or_wake(u64 dq, u64 dc) { ASSERT(0, "the queued item is no sync waiter"); }
static _Bool st_valid(u64 s) { return OWNER(s) == TID && WFIELD(s) >= in_width && !(s & ENQUEUED_ON_MGR); }
void harness(void) {
  st_setup(); SYM(in_consume2); in_consume2 &= 1;
  ASSUME(in_width >= 2);                                                  /* concurrent queue */
  ASSUME(st_valid(in_state) && (in_state & IN_BARRIER)); ASSUME(!(in_state & ROLE_BASE_WLH)); st_interfere_on = 1;
  u64 dc = ir_bump(P_SZ_cont); IR_ST64(dc + P_OFF_dc_flags, P_DC_FLAG_CONSUME); IR_ST64(dc + P_OFF_dc_next, 0);
  IR_ST64(DQ + P_OFF_items_head, dc); IR_ST64(DQ + P_OFF_items_tail, dc);
  _dispatch_lane_drain_non_barriers(DQ, dc, (u32)(in_consume2 ? P_WAKEUP_CONSUME_2 : 0));
  u64 o = st_last_old, n = st_last_new;
  ASSERT(redirects == 1, "the queued item is redirected to the target exactly once");
  ASSERT(IR_LD64(DQ + P_OFF_items_head) == 0 && IR_LD64(DQ + P_OFF_items_tail) == 0, "the item was taken off the list");
  ASSERT(OWNER(n) == 0 && !(n & IN_BARRIER), "the drain lock and barrier mode are given up");
  ASSERT(!(o & DIRTY), "HAND-OFF: the lock is never released past a DIRTY bit: a push that raced with the drain makes the owner look at the list again");
  ASSERT(WFIELD(n) == WFIELD(o) - (in_width - 1), "all of the width is given back except the unit that travels with the redirected item");
  ASSERT(pushes == 0 && wakeups == 0, "nothing is queued any more: no push, no wakeup");
  ASSERT(releases2 == (int)in_consume2, "the +2 of the wakeup that drove the drain is consumed exactly once");
  WITNESS_IF(st_ntrans >= 3, "a racing push (DIRTY) made the owner re-examine the list before unlocking"); WITNESS_IF(st_ntrans == 2, "clean unlock");
}
#endif
void _dispatch_lane_drain_barrier_waiter(u64 dq, u64 dc, u32 flags, u64 owned) { ASSERT(0, "barrier waiter path not part of this lemma"); }
void _dispatch_workloop_drain_barrier_waiter(u64 dq, u64 dc, u32 qos, u32 flags, u64 owned) { ASSERT(0, "workloop path not part of this lemma"); }

#ifdef H_SYNCDONE
/* the end of an uncontended dispatch_sync / dispatch_barrier_sync on a serial queue: _dispatch_lane_barrier_sync_invoke_and_complete.
   Between its look at the list tail and its unlocking compare-and-swap another thread may enqueue itself (setting DIRTY): the unlock must then be refused. */
static _Bool st_valid(u64 s) { return OWNER(s) == TID && (s & IN_BARRIER) && WFIELD(s) >= 1 && !(s & ENQUEUED_ON_MGR); }
static int callouts, lane_bcompletes;
void _dispatch_client_callout(u64 ctxt, u64 f) { callouts++; }
void _dispatch_lane_barrier_complete(u64 dq, u32 qos, u32 flags) { lane_bcompletes++; }
void harness(void) {
  st_setup(); ASSUME(in_width == 1); IR_ST16(DQ + P_OFF_dq_width, 1);
  ASSUME(st_valid(in_state)); ASSUME(!(in_state & ROLE_BASE_WLH)); st_interfere_on = 1;
  IR_ST64(DQ + P_OFF_items_tail, 0);       /* nothing queued when the owner looks */
  _dispatch_lane_barrier_sync_invoke_and_complete(DQ, 7, 0x77);
  ASSERT(callouts == 1, "the work item runs exactly once");
  if (lane_bcompletes) {
    ASSERT(st_ntrans == 0, "slow completion: the fast unlock did not touch the word");
    ASSERT(st_last_seen & (SUSPEND_BITS | ENQUEUED | DIRTY | RECEIVED_OVERRIDE | SYNC_TRANSFER), "the slow completion is taken only for a documented reason");
    WITNESS_IF(st_last_seen & DIRTY, "fast unlock refused because a waiter made the queue DIRTY");
  } else {
    u64 o = st_last_old, n = st_last_new;
    ASSERT(st_ntrans == 1, "fast unlock: exactly one update");
    ASSERT(!(o & DIRTY), "HAND-OFF: the uncontended sync completion never releases the queue past a DIRTY bit (a waiter that enqueued itself meanwhile would be stranded)");
    ASSERT(!(o & (ENQUEUED | SYNC_TRANSFER)) && !IS_SUSPENDED(o), "nor past an enqueue, a sync transfer or a suspension");
    ASSERT(OWNER(n) == 0 && !(n & IN_BARRIER) && WFIELD(n) == WFIELD(o) - 1, "the queue is released: owner cleared, barrier and width given back");
    WITNESS_REACHED("fast unlock taken");
  }
}
#endif
