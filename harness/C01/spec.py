import sys, os
sys.path.insert(0, os.path.join(os.path.dirname(__file__), '..', 'common'))
from vlib import H
from st_probes import ST_PROBES
PR = dict(ST_PROBES); PR.update({'DC_FLAG_CONSUME': 'DC_FLAG_CONSUME', 'SZ_vtable': 'sizeof(struct dispatch_lane_vtable_s)', 'OFF_vt_wakeup': 'offsetof(struct dispatch_lane_vtable_s, _os_obj_vtable.dq_wakeup)', 'OFF_vt_push': 'offsetof(struct dispatch_lane_vtable_s, _os_obj_vtable.dq_push)'})
ST_STUBS = ['_dispatch_bug', '_dispatch_set_basepri_override_qos', 'libdispatch_tsd_init', '_dispatch_queue_push_queue', '_dispatch_release_2_tailcall', '_dispatch_retain_2',
            '_dispatch_queue_wakeup_with_override_slow', '_dispatch_lane_wakeup', '_dispatch_lane_drain_barrier_waiter', '_dispatch_workloop_drain_barrier_waiter']
def S(name, define, units, note, **kw):
    return H(name, 'h_state.c', units + ['_dispatch_lane_wakeup', '__dispatch_tsd'], stubs=ST_STUBS, nt=1, heap=1024, defines=['-D' + define], note=note, unwind=5, probes=PR, timeout=300,
             icall_only=['_dispatch_lane_wakeup'], **kw)
HARNESSES = [
    S('S_drain_try_unlock', 'H_UNLOCK', ['_dispatch_queue_drain_try_unlock'], 'real _dispatch_queue_drain_try_unlock: all owner-held states, all owned amounts, done/not done, <=2 interfering updates'),
    S('S_wakeup_make_dirty', 'H_WAKEUP', ['_dispatch_queue_wakeup'], 'real _dispatch_queue_wakeup(MAKE_DIRTY, TARGET): all 2^64 states, qos 0..6'),
    S('S_invoke_finish', 'H_FINISH', ['_dispatch_queue_invoke_finish'], 'real _dispatch_queue_invoke_finish (re-enqueue path): all owner-held states'),
    H('S_sync_fast_complete', 'h_state.c', ['_dispatch_lane_barrier_sync_invoke_and_complete', '__dispatch_tsd'], stubs=['_dispatch_bug', '_dispatch_set_basepri_override_qos', 'libdispatch_tsd_init', '_dispatch_client_callout', '_dispatch_lane_barrier_complete',
        '_dispatch_queue_push_queue', '_dispatch_release_2_tailcall', '_dispatch_retain_2', '_dispatch_queue_wakeup_with_override_slow', '_dispatch_lane_wakeup', '_dispatch_lane_drain_barrier_waiter', '_dispatch_workloop_drain_barrier_waiter'],
      nt=1, heap=1024, defines=['-DH_SYNCDONE'], unwind=5, probes=PR, timeout=300, note='real _dispatch_lane_barrier_sync_invoke_and_complete: the uncontended sync unlock is refused when a waiter set DIRTY meanwhile; all owner-held states, <=2 interferences'),
    H('S_drain_non_barriers', 'h_state.c', ['_dispatch_lane_drain_non_barriers', '_dispatch_lane_wakeup', '__dispatch_tsd'], stubs=ST_STUBS + ['_dispatch_continuation_redirect_push', '_dispatch_lane_barrier_complete', '_dispatch_wait_for_enqueuer', '_dispatch_non_barrier_waiter_redirect_or_wake'], nt=1, heap=1024, defines=['-DH_DRAINNB'], unwind=5, unwindset='_dispatch_lane_drain_non_barriers.0:2,_dispatch_lane_drain_non_barriers.1:4,_dispatch_lane_drain_non_barriers.2:4,_dispatch_queue_try_acquire_async.0:3', probes=PR, timeout=900, witness_any=True, icall_only=['_dispatch_lane_wakeup'],
      note='real _dispatch_lane_drain_non_barriers with one plain item queued: all barrier-held states, widths 2..4094, <=2 interfering updates (racing pushes setting DIRTY)'),
    S('S_barrier_complete', 'H_BCOMPLETE', ['_dispatch_lane_class_barrier_complete'], 'real _dispatch_lane_class_barrier_complete, target NONE/TARGET: all barrier-held states'),
]
PRP = dict(PR); PRP.update({'SZ_rootq': 'sizeof(struct dispatch_queue_global_s)', 'OFF_dgq_pending': 'offsetof(struct dispatch_queue_global_s, dgq_pending)', 'OFF_dgq_thread_pool_size': 'offsetof(struct dispatch_queue_global_s, dgq_thread_pool_size)',
  'OFF_dpq_mediator_vtable': 'offsetof(struct dispatch_pthread_root_queue_context_s, dpq_thread_mediator.do_vtable)'})
HARNESSES.append(H('S_root_queue_poke', 'h_pool.c', ['_dispatch_root_queue_poke', '_dispatch_root_queues', '_dispatch_pthread_root_queue_contexts', '__dispatch_tsd'], stubs=['_dispatch_bug', 'libdispatch_tsd_init', '_dispatch_temporary_resource_shortage', 'pthread_create', 'dispatch_semaphore_signal', 'dispatch_once_f'],
    noglobal=['_dispatch_queue_attrs', '_dispatch_mgr_q'], icall_only=['_dispatch_object_no_invoke'], nt=1, heap=512, unwind=6, probes=PRP, timeout=300,
    note='real _dispatch_root_queue_poke(_slow) on the default global queue: pool size 0..8, request 1..3, floor 0..2, 0..2 parked workers: pending == threads created, pool accounting, growth when capacity remains'))
# ---------------------------------------------------------------- tier Q: real interleavings of small kernels (sequentialised threads)
def Q(name, file, units, note, defines=(), stubs=(), blocking=(), **kw):
    kw.setdefault('timeout', 1200); kw.setdefault('unwind', 4)
    return H(name, file, units, stubs=['_dispatch_bug', 'libdispatch_tsd_init'] + list(stubs), blocking=list(blocking), seq=True, nt=4, heap=256, defines=list(defines), probes=PR, note=note, **kw)
HARNESSES += [
    Q('Q_mpsc_2', 'h_mpsc.c', ['_dispatch_queue_push_item', '_dispatch_queue_get_head', '_dispatch_queue_pop_head'], 'REAL interleavings: 2 producers (real _dispatch_queue_push_item) x 1 drainer (real _dispatch_queue_get_head/_pop_head), context switch before every atomic access, 3 rounds x 3 threads x <=12 steps',
      defines=['-DNITEMS=2'], stubs=['_dispatch_wait_for_enqueuer'], blocking=['_dispatch_wait_for_enqueuer']),
]
# tier Q kernel 'real _dispatch_queue_wakeup(MAKE_DIRTY) x real _dispatch_queue_drain_try_unlock' (experiments/h_wakeup_q_tierQ.c) is NOT registered: _dispatch_queue_wakeup in resumable form
# (barrier-complete, override and reference paths) runs cbmc out of 24 GB even as a 2-thread, 2-function kernel (three variants measured); the race stays covered by the tier-S pair S_wakeup_make_dirty / S_drain_try_unlock
ASSUMPTIONS = ['thread pool lemma: pthread_create and the mediator semaphore are counting stubs; the workqueue monitor (_dispatch_workq_monitor_pools, /proc parsing) is not covered',
  'tier S: one call of one real state-machine function from an arbitrary 64-bit state word (restricted only by the caller contract: what the calling owner holds) and arbitrary width in [1,4094]; at most 2 interfering replacements of the word by other threads',
               'kevent-workloop role (BASE_WLH) excluded: not compiled on this platform',
               'target-queue push, +2 reference retain/release and QoS-override slow path are counting stubs']
LEVEL_TEXT = 'Bounded symbolic model checking of the real queue code. Tier S: each state-machine function of the hand-off protocol (_dispatch_queue_drain_try_unlock, _dispatch_queue_wakeup, _dispatch_queue_invoke_finish, _dispatch_lane_class_barrier_complete, the uncontended sync completion) is run once from ALL 2^64 state words permitted by its caller contract, all widths, with up to two arbitrary interfering updates by other threads; the solver decides the no-lost-wakeup / no-double-drive lemmas for every value. Tier H: every operation sequence up to length 3 (thorough: 4) over {async, barrier_async, sync, barrier_sync, async_and_wait, group_async, worker} on serial and concurrent queues and a chained target runs through the full real call tree with pool workers executed inline; exactly-once, no stranded item, sync returns, async does not wait are asserted at every step and at quiescence. Tier Q (real interleavings, sequentialised threads): two producers running the real _dispatch_queue_push_item against a drainer running the real _dispatch_queue_get_head / _dispatch_queue_pop_head with a context switch possible before every atomic access: every item dequeued exactly once, list empty at the end, the drainer never stranded behind an unlinked enqueuer, the push that found the list empty reports it. Tier H additionally covers a serial queue targeting a custom concurrent queue (sync waiters handed off and redirected onto the target).'
LEVEL_NOTE = 'Interleavings are represented by interference on the state word (tier S) and by sequential histories with inline workers (tier H); genuinely concurrent schedules of whole API calls are out of reach of this tool chain (DESIGN 2.4). Weak CAS never fails spuriously in tier H. Thread-pool growth: only the accounting of _dispatch_root_queue_poke(_slow) (tier S lemma S_root_queue_poke); the workqueue monitor and the real thread pool are not covered. Root-queue push, allocation, futex and client callout are stubs. Tier Q is bounded to 3 rounds x 3 threads x <=12 visible steps (2 items).'
# ---------------------------------------------------------------- tier H: bounded histories (case split over operation sequences)
from hist_spec import HH
from seqs import seqs
def _h(tier_q, tier_t):
    hs = []
    q_serial = seqs('aswBR', 3, minlen=2); q_conc = seqs('absBR', 3, minlen=2)
    t_serial = seqs('abswBgR', 4, minlen=4); t_conc = seqs('abswBgR', 4, minlen=4)
    hs += [HH(x) for x in q_serial] + [HH(x, conc=True) for x in q_conc]
    hs += [HH(x, chain=True) for x in seqs('asR', 3, minlen=3)]
    hs += [HH(x, tiers=('thorough',)) for x in t_serial] + [HH(x, conc=True, tiers=('thorough',)) for x in t_conc]
    # a serial queue targeting a custom CONCURRENT queue: sync waiters handed off by the drainer are redirected onto the target (as readers if it has room, else queued behind its barrier)
    import itertools
    def oc(n):
        out = []
        for t in itertools.product(['a', 's', 'w', 'a1', 'b1', 'R'], repeat=n):
            if t[0] == 'R' or t[-1] == 'R' or any(t[i] == 'R' and t[i + 1] == 'R' for i in range(n - 1)): continue
            if not any(x in ('a', 's', 'w') for x in t) or not any(x in ('a1', 'b1') for x in t): continue
            out.append(''.join(t))
        return out
    oc3 = oc(3); ocq = [x for x in oc3 if 's' in x.replace('a1', '').replace('b1', '') or 'w' in x] + ['ab1sR', 'ab1sa', 'ab1sb1', 'ab1B']
    hs += [HH(x, bottomconc=True) for x in ocq] + [HH(x, bottomconc=True, tiers=('thorough',)) for x in oc3 + oc(4) if x not in ocq]
    hs += [HH(x, mainq=True) for x in ('a1', 'a1a1', 's1', 'a1s1', 'as', 'a1Ra1', 'w1', 'a1w1', 'aa1s')]     # the real thread-bound main queue (and a serial queue targeting it)
    return hs
HARNESSES += _h(None, None)
ASSUMPTIONS = list(ASSUMPTIONS) + ['tier Q: sequentialised model threads over the real code (every translated function resumable; a context switch is possible before every atomic access and every blocking / kernel call); the scheduler runs a bounded number of rounds in which each unfinished thread executes a solver-chosen number of visible steps, followed by a deterministic tail; interleavings needing more context switches than rounds x threads are outside']
