/* C01 tier S (thread pool): real _dispatch_root_queue_poke / _dispatch_root_queue_poke_slow on a global root queue with symbolic pool state.
   dgq_pending counts worker requests that have been issued but not yet picked up by a starting worker (each new worker decrements it once): after a poke it must
   equal the requests that were really turned into threads - a request that cannot be honoured (pool full) has to be given back, otherwise every later poke sees
   "request still pending" and no worker is ever created again (items stranded for ever). */
#include "hpre.h"
#include "model.c"
#include "hpost.h"
#include "probe.h"
void _dispatch_bug(u64 l, u64 v) { ASSERT(0, "_dispatch_bug"); }
u64 ir_dyn_alloca(u64 n) { ASSERT(0, "dynamic alloca"); return 0; }
void libdispatch_tsd_init(void) { }
void _dispatch_temporary_resource_shortage(void) { ASSERT(0, "resource shortage"); }
void dispatch_once_f(u64 pred, u64 ctxt, u64 f) { }     /* the root queues are already initialised */
static int created, signalled; static u64 in_sleepers, in_pool, in_n, in_floor, in_pending;
u32 pthread_create(u64 thr, u64 attr, u64 fn, u64 arg) { created++; return 0; }
u64 dispatch_semaphore_signal(u64 sema) { if ((u64)signalled < in_sleepers) { signalled++; return 1; } return 0; }   /* a parked worker is woken instead of creating a thread */
#define RQ (G__dispatch_root_queues + 6ull * P_SZ_rootq)      /* the default-QoS, non-overcommit global queue */
void harness(void) {
  ir_init_globals(); ir_heap_next = IR_HEAP_BASE + 64; IR_ST32(TLS___dispatch_tsd(0), 0x104);
  SYM(in_sleepers); SYM(in_pool); SYM(in_n); SYM(in_floor); ASSUME(in_sleepers <= 2 && in_pool <= 8 && in_n >= 1 && in_n <= 3 && in_floor <= 2);
  u64 pqc = IR_LD64(RQ + P_OFF_do_ctxt); ASSERT(pqc != 0, "root queue has its pthread pool context");
  IR_ST64(pqc + P_OFF_dpq_mediator_vtable, 0x1234);            /* the mediator semaphore exists (pool initialised) */
  IR_ST32(RQ + P_OFF_dgq_thread_pool_size, (u32)in_pool); IR_ST32(RQ + P_OFF_dgq_pending, 0);
  IR_ST64(RQ + P_OFF_items_tail, 0x4242);                      /* work is queued */
  _dispatch_root_queue_poke(RQ, (u32)in_n, (u32)in_floor);
  s64 pending = (s32)IR_LD32(RQ + P_OFF_dgq_pending), pool = (s32)IR_LD32(RQ + P_OFF_dgq_thread_pool_size);
  ASSERT(pending == created, "NO-STRANDING: after a poke dgq_pending equals the number of threads really requested - requests the pool could not honour are given back (a leaked request blocks every later thread creation)");
  ASSERT(pool == (s64)in_pool - created && pool >= 0, "the pool size is reduced by exactly the threads created");
  s64 room = (s64)in_pool > (s64)in_floor ? (s64)in_pool - (s64)in_floor : 0; s64 need = (s64)in_n - signalled;
  ASSERT(created == (need < room ? need : room) || need <= 0, "POOL-GROWTH: with work queued, as many workers are woken or created as requested and as the pool allows");
  if (need > 0 && room > 0) ASSERT(created >= 1, "POOL-GROWTH: with work queued, nobody to wake and capacity left, a thread is created");
  WITNESS_IF(room == 0 && need > 0, "pool exactly full: the request is given back"); WITNESS_IF(created >= 2, "two threads created"); WITNESS_IF(signalled >= 1 && created == 0, "parked workers woken instead");
}
