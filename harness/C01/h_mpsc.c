/* C01/C02 tier Q: the multi-producer single-consumer item list under REAL interleavings (sequentialised threads, context switch possible before every
   atomic access): two producers run the real _dispatch_queue_push_item (os_mpsc_push_item: exchange the tail first, link the predecessor afterwards) while
   the drainer runs the real _dispatch_queue_get_head / _dispatch_queue_pop_head (os_mpsc_get_head / os_mpsc_pop_head: may have to wait for the enqueuer
   that has swung the tail but not yet linked).  Every pushed item is dequeued exactly once, the list ends empty, the pusher that found the list empty is the
   one that is told to wake the queue, a consumer is never blocked for ever, and two items pushed by ONE thread come out in that order. */
#include "hpre.h"
#define ENABLED__dispatch_wait_for_enqueuer(p) (IR_LD64(p) != 0)
#include "model.c"
#include "hpost.h"
#include "probe.h"
#include "seqthr.h"
void _dispatch_bug(u64 l, u64 v) { ASSERT(0, "_dispatch_bug"); }
u64 ir_dyn_alloca(u64 n) { ASSERT(0, "dynamic alloca"); return 0; }
void libdispatch_tsd_init(void) { }
u64 _dispatch_wait_for_enqueuer(u64 p) { return IR_LD64(p); }      /* the scheduler only resumes the caller once the link is there (ENABLED_ above) */
#define DQ IR_HEAP_BASE
#define ITEM(i) (IR_HEAP_BASE + 128 + 32ull * (i))      /* queue header and items share one page of the model heap */
#ifndef NITEMS
#define NITEMS 2            /* MODE 0: thread 1 pushes item 0, thread 2 pushes item 1 | MODE 1: thread 1 pushes items 0 then 1, thread 2 pushes item 2 */
#endif
static u64 popped[NITEMS], ch[IR_NT], nx[IR_NT]; static int npop; static _Bool was_empty[NITEMS];
static void producer1(void) { TH_BEGIN TH_CALL(1, was_empty[0] = _dispatch_queue_push_item(DQ, ITEM(0)))
#if NITEMS == 3
  TH_CALL(2, was_empty[1] = _dispatch_queue_push_item(DQ, ITEM(1)))
#endif
  TH_END }
static void producer2(void) { TH_BEGIN TH_CALL(1, was_empty[NITEMS - 1] = _dispatch_queue_push_item(DQ, ITEM(NITEMS - 1))) TH_END }
static void consumer(void) {
  TH_BEGIN
  TH_WAIT(1, IR_LD64(DQ + P_OFF_items_tail) != 0)                    /* the drainer is only started on a non-empty queue */
  TH_CALL(2, ch[ir_cur] = _dispatch_queue_get_head(DQ))
  TH_CALL(3, nx[ir_cur] = _dispatch_queue_pop_head(DQ, ch[ir_cur]))
  popped[0] = ch[ir_cur]; npop = 1;
  TH_WAIT(4, IR_LD64(DQ + P_OFF_items_tail) != 0)
  TH_CALL(5, ch[ir_cur] = _dispatch_queue_get_head(DQ))
  TH_CALL(6, nx[ir_cur] = _dispatch_queue_pop_head(DQ, ch[ir_cur]))
  popped[1] = ch[ir_cur]; npop = 2;
#if NITEMS == 3
  TH_WAIT(7, IR_LD64(DQ + P_OFF_items_tail) != 0)
  TH_CALL(8, ch[ir_cur] = _dispatch_queue_get_head(DQ))
  TH_CALL(9, nx[ir_cur] = _dispatch_queue_pop_head(DQ, ch[ir_cur]))
  popped[2] = ch[ir_cur]; npop = 3;
#endif
  TH_END
}
static void q_thread(int t) { if (t == 1) producer1(); else if (t == 2) producer2(); else consumer(); }
static int idx(u64 p) { for (int i = 0; i < NITEMS; i++) if (p == ITEM(i)) return i; return -1; }
void harness(void) {
  ir_init_globals(); ir_heap_next = IR_HEAP_BASE + 256;
  for (int r = 0; r < Q_ROUNDS; r++) for (int t = 1; t <= 3; t++) q_run_slice(r, t);
  ir_cur = 0;
  for (int i = 0; i < NITEMS; i++) if (i < npop) ASSERT(idx(popped[i]) >= 0, "EXACTLY-ONCE: the drainer only ever dequeues items that were pushed");
  ASSERT(npop < 2 || popped[0] != popped[1], "EXACTLY-ONCE: no item is dequeued twice");
#if NITEMS == 3
  ASSERT(npop < 3 || (popped[0] != popped[2] && popped[1] != popped[2]), "EXACTLY-ONCE: no item is dequeued twice (3)");
  { int p0 = -1, p1 = -1; for (int i = 0; i < NITEMS; i++) if (i < npop) { if (popped[i] == ITEM(0)) p0 = i; if (popped[i] == ITEM(1)) p1 = i; }
    ASSERT(p1 < 0 || (p0 >= 0 && p0 < p1), "ORDER: two items pushed by one thread are dequeued in that order"); }
#endif
  if (tdone[1] && tdone[2]) {
    int ne = 0; for (int i = 0; i < NITEMS; i++) ne += was_empty[i];
    ASSERT(ne >= 1, "WAKEUP: at least the push that made the list non-empty reports it (its caller must wake the queue)");
    ASSERT(!(ir_blocked[3] && !tdone[3]), "NO-STRANDING: with all pushes complete the drainer is never left waiting (for an item or for an enqueuer's link)");
  }
  if (tdone[1] && tdone[2] && tdone[3]) {
    ASSERT(npop == NITEMS, "every pushed item was dequeued");
    ASSERT(IR_LD64(DQ + P_OFF_items_tail) == 0 && IR_LD64(DQ + P_OFF_items_head) == 0, "the list is empty afterwards (tail and head both cleared)");
    WITNESS_REACHED("all threads ran to completion");
    WITNESS_IF(popped[0] == ITEM(NITEMS - 1), "the second producer's item came out first");
  }
  WITNESS_IF(ir_blocked[3] && tdone[1] && !tdone[2], "the drainer had to wait for an enqueuer");
}
