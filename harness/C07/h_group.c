/* C07 tier S: the group state word.  Real dispatch_group_enter / leave / wait / _dispatch_group_wait_slow / dispatch_group_notify_f / _dispatch_group_wake from
   src/semaphore.c, ALL 2^64 state words inside the caller contract, bounded interference by other threads (enter/leave/wait/notify elsewhere).
   Layout written down from the comment block in semaphore_internal.h: low 32 bits = (-count * 4) | HAS_NOTIFS(2) | HAS_WAITERS(1), high 32 bits = generation. */
#include "hpre.h"
static void g_pre(unsigned long long a); static void g_cas_ok(unsigned long long a, unsigned long long o, unsigned long long n); static void g_rmw(unsigned long long a, unsigned long long o);
static void g_seen(unsigned long long a, unsigned long long v);
#define IR_CAS_PRE(a, o) g_pre(a)
#define IR_RMW_PRE(a, o) g_pre(a)
#define IR_ALOAD_PRE(a, o) g_pre(a)
#define IR_CAS_OK(a, old, nw, o) g_cas_ok(a, old, nw)
#define IR_CAS_FAIL(a, old, o) g_seen(a, old)
#define IR_ALOAD_DONE(a, v, o) g_seen(a, v)
#define IR_RMW_DONE(a, old, o) g_rmw(a, old)
#include "model.c"
#include "hpost.h"
#include "probe.h"
#define HAS_WAITERS 1ull
#define HAS_NOTIFS 2ull
#define VALUE_MASK 0xfffffffcull
#define COUNT(s) ((u32)(-((u32)(s) & (u32)VALUE_MASK)) >> 2)
#define GEN(s) ((u32)((s) >> 32))
#define DG IR_HEAP_BASE
#define GADDR (DG + P_OFF_dg_state)
#ifndef G_MAX_INTERFERE
#define G_MAX_INTERFERE 2
#endif
static u64 in_state, in_interfere[G_MAX_INTERFERE], in_do_interfere[G_MAX_INTERFERE]; static int g_ninterfere; static _Bool g_interfere_on;
static u64 g_last_old, g_last_new, g_last_seen; static int g_ntrans, g_nrmw; static u64 g_rmw_old;
/* what other threads can do to the word in one step: enter (count+1), leave (count-1, generation+1 when reaching 0, flags cleared by the leaver), wait (set HAS_WAITERS), notify (set HAS_NOTIFS).
   The envelope used here is the closure of those: any word whose generation is not older (modulo) ... kept simple: generation never decreases by more than the count of interferences; flags arbitrary. */
static _Bool g_step_ok(u64 prev, u64 nw);
static u64 g_word_at_access;
#ifndef G_INTERFERE_AFTER_RMW
#define G_INTERFERE_AFTER_RMW 0
#endif
static void g_pre(unsigned long long a) {
  if (a != GADDR && a != GADDR + 4) return;
  if (g_interfere_on && !(G_INTERFERE_AFTER_RMW && g_nrmw == 0))
  if (g_ninterfere < G_MAX_INTERFERE) { int k = g_ninterfere++; SYM_AT(in_do_interfere, k); SYM_AT(in_interfere, k);
    if (in_do_interfere[k] & 1) { u64 prev = IR_LD64(GADDR); ASSUME(g_step_ok(prev, in_interfere[k])); IR_ST64(GADDR, in_interfere[k]); } }
  g_word_at_access = IR_LD64(GADDR); }
static void g_cas_ok(unsigned long long a, unsigned long long o, unsigned long long n) { if (a == GADDR) { g_last_old = o; g_last_new = n; g_ntrans++; } }
static void g_rmw(unsigned long long a, unsigned long long o) { if (a == GADDR || a == GADDR + 4) { g_rmw_old = g_word_at_access; g_nrmw++; } }
static void g_seen(unsigned long long a, unsigned long long v) { if (a == GADDR) g_last_seen = v; }
void _dispatch_bug(u64 l, u64 v) { ASSERT(0, "_dispatch_bug"); }
u64 ir_dyn_alloca(u64 n) { ASSERT(0, "dynamic alloca"); return 0; }
static u64 errno_cell; u64 __errno_location(void) { if (!errno_cell) errno_cell = ir_bump(8); return errno_cell; }
void libdispatch_tsd_init(void) { }
static int wakes, retains, releases; static u64 wake_state; static _Bool wake_release;
static void setup(void) { ir_init_globals(); ir_heap_next = IR_HEAP_BASE + 256; IR_ST32(TLS___dispatch_tsd(0), 0x104); SYM(in_state); IR_ST64(GADDR, in_state); IR_ST32(DG + P_OFF_ref, 5); IR_ST32(DG + P_OFF_xref, 1); }

#ifdef H_LEAVE
void _dispatch_group_wake(u64 dg, u64 st, _Bool rel) { wakes++; wake_state = st; wake_release = rel; }
/* interference between the leaver's atomic add and its compare-and-swap: other threads may re-enter the group (count grows), then wait or notify (flags set).
   Nobody else can clear the flags or bump the generation while the count is non-zero... except that a complete enter+leave pair of others returns to count 0 with generation+1:
   the envelope allows any count, any flags, generation >= the one the leaver produced */
static u64 gen_floor;
static _Bool g_step_ok(u64 prev, u64 nw) { return (u32)(GEN(nw) - GEN(prev)) <= 2 && (COUNT(nw) != 0 || 1); }
void harness(void) {
  setup(); ASSUME(COUNT(in_state) >= 1); g_interfere_on = 1;      /* interference only after the atomic add (G_INTERFERE_AFTER_RMW): this lemma is about the leaver's second step */
  dispatch_group_leave(DG);
  u64 after_add = g_rmw_old + 4;     /* the word the leaver produced with its release add */
  ASSERT(g_nrmw == 1, "exactly one atomic add");
  ASSERT(COUNT(after_add) == COUNT(g_rmw_old) - 1, "leave lowers the count by one");
  if (COUNT(g_rmw_old) == 1) {
    ASSERT(GEN(after_add) == (u32)(GEN(g_rmw_old) + 1), "COMPLETION: reaching zero bumps the generation in the same atomic step");
    ASSERT(wakes == 1 && wake_release, "COMPLETION: the thread that brought the count to zero fires the wake-up exactly once");
    u64 fin = IR_LD64(GADDR);
    u64 o = g_ntrans ? g_last_old : after_add;       /* the word at the leaver's linearisation point */
    if (g_ntrans == 0) o = (g_last_seen ? g_last_seen : after_add);
    ASSERT(wake_state == o || g_ntrans == 0, "the wake-up is given the word found (with the flags still set) so that it knows whom to wake");
    if (g_ntrans) {
      u64 n = g_last_new;
      if (COUNT(o) == 0) ASSERT(!(n & (HAS_WAITERS | HAS_NOTIFS)), "count still zero: both flags are consumed by the leaver");
      else { ASSERT((n & HAS_WAITERS) == (o & HAS_WAITERS), "LEFT-BEHIND: if the group was entered again meanwhile, the waiters bit belongs to the new generation and must not be cleared");
             ASSERT(!(n & HAS_NOTIFS), "the notifications of the completed generation are consumed"); }
      ASSERT(((n ^ o) & ~(HAS_WAITERS | HAS_NOTIFS)) == 0, "nothing but the flags changes in the second step");
      ASSERT(((wake_state & HAS_WAITERS) != 0) == ((o & HAS_WAITERS) != 0) && ((wake_state & HAS_NOTIFS) != 0) == ((o & HAS_NOTIFS) != 0), "the waker is told exactly the flags that were found");
    } else ASSERT(!(fin & (HAS_WAITERS | HAS_NOTIFS)) || g_ninterfere > 0, "no flags to clear");
    WITNESS_IF(g_ntrans && COUNT(g_last_old) != 0 && (g_last_old & HAS_WAITERS), "re-entered group with a new waiter: waiters bit kept");
    WITNESS_IF(g_ntrans && COUNT(g_last_old) == 0, "flags consumed at count zero");
  } else {
    ASSERT(GEN(after_add) == GEN(g_rmw_old), "the generation only changes at zero");
    ASSERT(wakes == 0 && g_ntrans == 0, "NOT-BEFORE: no wake-up and no flag change while the count is non-zero");
    WITNESS_REACHED("leave with work outstanding");
  }
}
#undef IR_RMW_DONE
#endif

#ifdef H_ENTER
static _Bool g_step_ok(u64 prev, u64 nw) { return COUNT(nw) < 0x3ffffff0u; }
void harness(void) {
  setup(); ASSUME(COUNT(in_state) < 0x3ffffff0u); g_interfere_on = 1;
  dispatch_group_enter(DG);
  u64 o = g_rmw_old, fin = IR_LD64(GADDR);
  ASSERT(g_nrmw == 1, "exactly one atomic update");
  ASSERT(COUNT(fin) == COUNT(o) + 1, "enter raises the count by one");
  ASSERT(GEN(fin) == GEN(o) && ((fin ^ o) & 3) == 0, "enter changes neither the generation nor the flags (no borrow out of the low 32 bits)");
  ASSERT(IR_LD32(DG + P_OFF_ref) == 5u + (COUNT(o) == 0 ? 1 : 0), "LIFETIME: a group that becomes non-empty retains itself");
  WITNESS_IF(COUNT(o) == 0, "first enter");
}
#endif

#ifdef H_WAIT
static u64 in_timeout; static int slow_calls; static u32 slow_gen; static u64 slow_word;
u64 _dispatch_group_wait_slow(u64 dg, u32 gen, u64 timeout) { slow_calls++; slow_gen = gen; slow_word = IR_LD64(GADDR); return 77; }
static _Bool g_step_ok(u64 prev, u64 nw) { return 1; }
void harness(void) {
  setup(); g_interfere_on = 1; SYM(in_timeout);
  u64 r = dispatch_group_wait(DG, in_timeout);
  u64 seen = g_ntrans ? g_last_old : g_last_seen;
  if (slow_calls == 0) {
    if (r == 0) { ASSERT(COUNT(seen) == 0, "ZERO-AT-SOME-MOMENT: wait returns 0 without sleeping only if it observed the count at zero"); WITNESS_REACHED("group already empty"); }
    else { ASSERT(in_timeout == 0 && COUNT(seen) != 0, "a polling wait (timeout NOW) returns non-zero at once when work is outstanding"); ASSERT(g_ntrans == 0, "and leaves no waiters bit behind"); WITNESS_REACHED("poll on a busy group"); }
  } else {
    ASSERT(COUNT(seen) != 0 && in_timeout != 0, "the waiter sleeps only when work is outstanding");
    ASSERT(IR_LD64(GADDR) == slow_word, "-");
    ASSERT((seen & HAS_WAITERS) || (g_ntrans == 1 && (g_last_new & HAS_WAITERS) && ((g_last_new ^ g_last_old) == HAS_WAITERS)), "LEFT-BEHIND: before sleeping the waiter has published HAS_WAITERS (or found it set) in the very word whose generation it will wait on");
    ASSERT(slow_gen == GEN(seen), "it sleeps on the generation of that word");
    WITNESS_IF(g_ntrans == 1, "waiters bit set by this waiter");
  }
}
#endif

#ifdef H_WAIT_SLOW
/* _dispatch_group_wait_slow with an arbitrary kernel: each sleep returns 0 / EINTR / ETIMEDOUT, and the generation may or may not have moved on */
static u64 in_rc[3], in_bump[3]; static int sleeps; static u64 in_timeout, in_gen;
#define ETIMEDOUT 110
#define EINTR 4
u32 _dispatch_wait_on_address(u64 addr, u32 val, u64 timeout, u32 flags) {
  ASSERT(addr == GADDR + 4 && val == (u32)in_gen, "sleeps on the generation word with the generation it was given");
  int k = sleeps; ASSUME(k < 3); sleeps++; SYM_AT(in_rc, k); SYM_AT(in_bump, k);
  ASSUME(in_rc[k] == 0 || in_rc[k] == EINTR || in_rc[k] == ETIMEDOUT);
  if (in_bump[k] & 1) IR_ST32(GADDR + 4, IR_LD32(GADDR + 4) + 1);          /* some leave brought the count to zero */
  ASSUME(!(in_rc[k] == ETIMEDOUT && 0));
  return (u32)in_rc[k]; }
static _Bool g_step_ok(u64 prev, u64 nw) { return 1; }
void harness(void) {
  setup(); SYM(in_timeout); in_gen = GEN(in_state);
  u64 r = _dispatch_group_wait_slow(DG, (u32)in_gen, in_timeout);
  _Bool moved = GEN(IR_LD64(GADDR)) != (u32)in_gen;
  if (r == 0) ASSERT(moved, "ZERO-AT-SOME-MOMENT: wait returns 0 only after the generation moved on, i.e. the count was zero at some moment during the call");
  else { ASSERT(!moved, "a completed group is never reported as a timeout");
         ASSERT(sleeps >= 1 && in_rc[sleeps - 1] == ETIMEDOUT, "FULL-TIMEOUT: wait returns non-zero only after the kernel reported that the timeout elapsed (a signal / spurious wake-up is not a timeout)"); }
  WITNESS_IF(r == 0 && sleeps == 2, "woken on the second sleep"); WITNESS_IF(r != 0, "timed out"); WITNESS_IF(sleeps == 3, "two spurious wake-ups");
}
#endif

#ifdef H_NOTIFY
void _dispatch_group_wake(u64 dg, u64 st, _Bool rel) { wakes++; wake_state = st; wake_release = rel; }
u64 _dispatch_continuation_alloc_cacheonly(void) { return 0; }
u64 _dispatch_continuation_alloc_from_heap(void) { return ir_bump(P_SZ_cont); }
u64 _dispatch_wait_for_enqueuer(u64 p) { return IR_LD64(p); }
static _Bool g_step_ok(u64 prev, u64 nw) { return 1; }
static u64 in_second;
void harness(void) {
  setup(); g_interfere_on = 1; SYM(in_second); in_second &= 1;
  u64 q = ir_bump(128); IR_ST32(q + P_OFF_ref, 3); IR_ST32(q + P_OFF_priority, 0);
  if (in_second) { u64 first = ir_bump(P_SZ_cont); IR_ST64(DG + P_OFF_dg_notify_head, first); IR_ST64(DG + P_OFF_dg_notify_tail, first); ASSUME(in_state & HAS_NOTIFS); }
  dispatch_group_notify_f(DG, q, 0x1234, 0x77);
  u64 head = IR_LD64(DG + P_OFF_dg_notify_head), tail = IR_LD64(DG + P_OFF_dg_notify_tail);
  ASSERT(tail != 0 && IR_LD64(tail + P_OFF_dc_ctxt) == 0x1234 && IR_LD64(tail + P_OFF_dc_func) == 0x77 && IR_LD64(tail + P_OFF_dc_data) == q, "EXACTLY-ONCE: the notification is on the group's list, with its queue, function and context");
  if (in_second) { ASSERT(wakes == 0 && g_ntrans == 0, "a later notify only appends: the first one already armed HAS_NOTIFS"); ASSERT(IR_LD64(IR_LD64(DG + P_OFF_dg_notify_head) + P_OFF_dc_next) == tail, "appended behind the first"); WITNESS_REACHED("second notify appended"); return; }
  ASSERT(head == tail, "first notification is head and tail");
  u64 seen = g_ntrans ? g_last_old : g_last_seen;
  if (wakes) { ASSERT(wakes == 1 && (u32)seen == 0 + ((u32)seen & 3) && COUNT(seen) == 0, "NOT-BEFORE/AT-ONCE: notify fires immediately only when it observed the count at zero");
               ASSERT(wake_state & HAS_NOTIFS, "and tells the waker that notifications exist"); ASSERT(g_ntrans == 0, "without arming the bit"); WITNESS_REACHED("notify on an empty group fires at once"); }
  else { ASSERT(g_ntrans == 1 && (g_last_new & HAS_NOTIFS) && ((g_last_new ^ g_last_old) & ~HAS_NOTIFS) == 0, "LEFT-BEHIND: otherwise HAS_NOTIFS is armed in the state word, so that the leave which reaches zero fires it");
         ASSERT((u32)g_last_old != 0 || 0, "armed only while work is outstanding"); WITNESS_REACHED("notify armed"); }
  ASSERT(IR_LD32(q + P_OFF_ref) == 4, "LIFETIME: the target queue is retained for the notification");
  ASSERT(IR_LD32(DG + P_OFF_ref) == (in_second ? 5u : 6u), "LIFETIME: the first notification retains the group");
}
#endif

#ifdef H_WAKE
/* _dispatch_group_wake: every queued notification is submitted exactly once, waiters are woken iff HAS_WAITERS, references are balanced */
static int pushes; static u64 pushed[4]; static int addr_wakes, rel_q, rel_n; 
static u64 in_inject, newdc; static _Bool injected;
/* SNAPSHOT: while the notifications are being fired another thread (which has re-entered the group) registers a new one: the exact memory effect of the MPSC push in
   _dispatch_group_notify (exchange the tail, then link the predecessor or set the head).  It belongs to the NEW generation and must not be fired by this wake. */
static void inject_notify(void) { injected = 1; u64 prev = IR_LD64(DG + P_OFF_dg_notify_tail); IR_ST64(newdc + P_OFF_dc_next, 0); IR_ST64(DG + P_OFF_dg_notify_tail, newdc);
  if (prev) IR_ST64(prev + P_OFF_dc_next, newdc); else IR_ST64(DG + P_OFF_dg_notify_head, newdc); }
void _dispatch_lane_push(u64 q, u64 dc, u32 qos) { ASSERT(pushes < 4, "harness bound"); pushed[pushes++] = dc; if (!injected && in_inject == (u64)pushes) inject_notify(); }
void _dispatch_wake_by_address(u64 a) { ASSERT(a == GADDR + 4, "wakes sleepers on the generation word"); addr_wakes++; }
void _os_object_release_internal(u64 o) { rel_q++; }
void _os_object_release_internal_n(u64 o, u16 n) { ASSERT(o == DG, "group released"); rel_n += n; }
u64 _dispatch_wait_for_enqueuer(u64 p) { return IR_LD64(p); }
u32 _dispatch_queue_override_qos(u64 q, u32 qos) { return qos; }
static _Bool g_step_ok(u64 prev, u64 nw) { return 1; }
static u64 in_n, in_flags, in_rel;
void harness(void) {
  setup(); in_n = NNOTIFY; SYM(in_flags); SYM(in_rel); in_flags &= 3; in_rel &= 1;
  u64 q = ir_bump(128); u64 vt = ir_bump(P_SZ_vtable); IR_ST64(q + P_OFF_vtable, vt); IR_ST64(vt + P_OFF_vt_push, FN__dispatch_lane_push); IR_ST32(q + P_OFF_ref, 9);
  u64 dc[3]; u64 prev = 0;
  for (int i = 0; i < 3; i++) if ((u64)i < in_n) { dc[i] = ir_bump(P_SZ_cont); IR_ST64(dc[i] + P_OFF_dc_flags, 0x4 /* DC_FLAG_CONSUME */); IR_ST64(dc[i] + P_OFF_dc_data, q);
    if (prev) IR_ST64(prev + P_OFF_dc_next, dc[i]); else IR_ST64(DG + P_OFF_dg_notify_head, dc[i]); prev = dc[i]; }
  IR_ST64(DG + P_OFF_dg_notify_tail, prev);
  newdc = ir_bump(P_SZ_cont); IR_ST64(newdc + P_OFF_dc_flags, 0x4); IR_ST64(newdc + P_OFF_dc_data, q); SYM(in_inject); ASSUME(in_inject <= 3);     /* 0: nobody registers meanwhile; k: right after the k-th submission */
  _dispatch_group_wake(DG, (in_state & ~3ull) | in_flags, in_rel);
  if (in_flags & HAS_NOTIFS) {
    for (int i = 0; i < 4; i++) if (i < pushes) ASSERT(pushed[i] != newdc, "NOT-BEFORE/SNAPSHOT: a notification registered while the previous generation's notifications are being fired is not fired with them (the list is detached before anything is submitted)");
    ASSERT((u64)pushes == in_n, "EXACTLY-ONCE: every queued notification is submitted exactly once");
    for (int i = 0; i < 3; i++) if ((u64)i < in_n) ASSERT(pushed[i] == dc[i], "in registration order, to its own queue");
    if (!injected) ASSERT(IR_LD64(DG + P_OFF_dg_notify_head) == 0 && IR_LD64(DG + P_OFF_dg_notify_tail) == 0, "the list is empty afterwards (the group can be reused)");
    else ASSERT(IR_LD64(DG + P_OFF_dg_notify_head) == newdc && IR_LD64(DG + P_OFF_dg_notify_tail) == newdc, "LEFT-BEHIND: the notification registered meanwhile stays on the list for its own generation");
    WITNESS_IF(injected, "a notification was registered while the wake was firing");
    ASSERT(IR_LD32(q + P_OFF_ref) == 9u - (u32)in_n, "each notification's queue reference is dropped");
  } else ASSERT(pushes == 0, "NOT-BEFORE: without HAS_NOTIFS nothing is submitted");
  ASSERT(addr_wakes == ((in_flags & HAS_WAITERS) ? 1 : 0), "LEFT-BEHIND: sleepers are woken exactly when HAS_WAITERS was found");
  ASSERT(IR_LD32(DG + P_OFF_ref) == 5u - (u32)(in_rel + ((in_flags & HAS_NOTIFS) ? 1 : 0)), "reference accounting: one for the leave that emptied the group, one for the first notify");
  WITNESS_IF(in_flags & HAS_NOTIFS, "notifications fired"); WITNESS_IF(in_flags == HAS_WAITERS, "waiters only");
}
#endif
