import sys, os
sys.path.insert(0, os.path.join(os.path.dirname(__file__), '..', 'common'))
from vlib import H
from st_probes import ST_PROBES
PR = dict(ST_PROBES); PR.update({'OFF_dg_state': 'offsetof(struct dispatch_group_s, dg_state)', 'OFF_dg_notify_head': 'offsetof(struct dispatch_group_s, dg_notify_head)', 'OFF_dg_notify_tail': 'offsetof(struct dispatch_group_s, dg_notify_tail)',
   'SZ_vtable': 'sizeof(struct dispatch_lane_vtable_s)', 'OFF_vt_push': 'offsetof(struct dispatch_lane_vtable_s, _os_obj_vtable.dq_push)'})
BASE = ['_dispatch_bug', 'libdispatch_tsd_init']
def S(name, define, units, stubs, note, icall=(), **kw):
    return H(name, 'h_group.c', units + ['__dispatch_tsd'], stubs=BASE + stubs, nt=1, heap=2048, defines=['-D' + x if not x.startswith('-D') else x for x in define.split(' ')], note=note, unwind=5, probes=PR, timeout=300, icall_only=list(icall), **kw)
HARNESSES = [
    S('S_leave', 'H_LEAVE -DG_INTERFERE_AFTER_RMW=1', ['dispatch_group_leave'], ['_dispatch_group_wake', '__errno_location'], 'real dispatch_group_leave: all states with count>=1; <=2 interferences between the add and the flag-clearing CAS'),
    S('S_enter', 'H_ENTER', ['dispatch_group_enter'], ['__errno_location'], 'real dispatch_group_enter: all states'),
    S('S_wait', 'H_WAIT', ['dispatch_group_wait'], ['_dispatch_group_wait_slow', '__errno_location'], 'real dispatch_group_wait fast part: all states x all timeouts'),
    S('S_wait_slow', 'H_WAIT_SLOW', ['_dispatch_group_wait_slow'], ['_dispatch_wait_on_address', '__errno_location'], 'real _dispatch_group_wait_slow against an arbitrary kernel: <=3 sleeps, each 0/EINTR/ETIMEDOUT, generation may move'),
    S('S_notify', 'H_NOTIFY', ['dispatch_group_notify_f'], ['_dispatch_group_wake', '__errno_location', '_dispatch_continuation_alloc_cacheonly', '_dispatch_continuation_alloc_from_heap', '_dispatch_wait_for_enqueuer'],
      'real dispatch_group_notify_f (+_dispatch_group_notify, MPSC push): first and later notify, all states'),
] + [S('S_wake_%d' % n, 'H_WAKE -DNNOTIFY=%d' % n, ['_dispatch_group_wake', '_dispatch_lane_push'], ['_dispatch_lane_push', '_dispatch_wake_by_address', '_os_object_release_internal', '_os_object_release_internal_n', '_dispatch_wait_for_enqueuer', '_dispatch_queue_override_qos', '__errno_location'],
      'real _dispatch_group_wake on a list of %d notification(s): each submitted once, in order; waiters woken iff HAS_WAITERS' % n, icall=['_dispatch_lane_push']) for n in (1, 2, 3)]
QSTUBS = BASE + ['__errno_location', '_dispatch_continuation_alloc_cacheonly', '_dispatch_continuation_alloc_from_heap', '_dispatch_wait_for_enqueuer', '_os_object_release_internal', '_os_object_release_internal_n',
          '_dispatch_continuation_async', '_dispatch_wait_on_address', '_dispatch_wake_by_address']
def Q(name, defs, note, **kw):
    return H(name, 'h_group_q.c', ['dispatch_group_leave', 'dispatch_group_enter', 'dispatch_group_notify_f', 'dispatch_group_wait', '__dispatch_tsd'], stubs=QSTUBS,
             blocking=['_dispatch_wait_on_address', '_dispatch_wait_for_enqueuer'], visible=['_dispatch_continuation_async', '_dispatch_wake_by_address'], seq=True, nt=4, heap=512, pagewords=64,
             defines=['-DQ_MAXB=8'] + defs, unwind=6, probes=PR, witness_any=True, note=note, **kw)
# tier Q on the group (h_group_q.c: final leave x re-enter+notify x wait) is NOT registered: 25 resumable functions / 51 yield points -> cbmc runs out of 24 GB during symbolic execution (measured twice); see DESIGN
ASSUMPTIONS = ['tier S: one call of one real group function from an arbitrary 64-bit dg_state (restricted only by the documented caller contract, e.g. leave needs count >= 1); interference: at most 2 arbitrary replacements of the word by other threads at atomic access points',
               'kernel wait (_dispatch_wait_on_address / futex) is a stub returning 0, EINTR or ETIMEDOUT with the generation optionally advanced; at most 3 sleeps per wait',
               'queue push, retain/release and wake-by-address are counting stubs']
LEVEL_TEXT = 'Tier S over all 2^64 dg_state words with bounded interference: enter/leave count arithmetic with the generation carry exactly at 1->0, the leaver clears HAS_WAITERS only if the group was not re-entered, the waker is told exactly the flags found; wait returns 0 only after observing count 0 or a generation change and non-zero only after the kernel reported the timeout (EINTR/spurious wake-ups injected, <=3 sleeps); notify arms HAS_NOTIFS or fires at once at count 0; _dispatch_group_wake submits each queued notification exactly once in order, wakes sleepers iff HAS_WAITERS, balances references. SNAPSHOT lemma: while _dispatch_group_wake is firing, another thread (after re-entering the group) registers a new notification - injected with the exact memory effect of the real MPSC push after each submission - and it is never fired by that wake and stays on the list for its own generation.'
LEVEL_NOTE = 'Each lemma is one call of one real function under <=2 interfering replacements of the state word; multi-call schedules are not enumerated; kernel wait is a stub. A tier-Q kernel for the group (final leave x re-enter+notify x wait, experiments/h_group_q_tierQ.c) was built and runs out of 24 GB in symbolic execution (25 resumable functions): not registered.'