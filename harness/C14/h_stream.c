/* C14 (kernel): one dispatch I/O operation on a stream (pipe / socket / non-disk descriptor), from the state _dispatch_stream_enqueue_operation leaves behind until it completes.
   REAL (translated from io.c): _dispatch_stream_enqueue_operation, _dispatch_operation_should_enqueue, _dispatch_stream_queue_handler, _dispatch_stream_source_handler,
   _dispatch_stream_handler, _dispatch_stream_pick_next_operation, _dispatch_operation_perform (+ its applier block), _dispatch_operation_deliver_data (+ its delivery block),
   _dispatch_stream_complete_operation, _dispatch_stream_cleanup_operations, _dispatch_operation_dispose, _dispatch_io_get_error.
   ENVIRONMENT (stubs, all part of the claim): read/write return an ARBITRARY outcome per call (any byte count 1..len, EOF, EAGAIN, EINTR, a hard error); water marks, length,
   chunk size are arbitrary 64-bit values inside the invariant the setters maintain (1 <= high, low <= high, length >= 1, chunk >= 1); between two runs of the stream handler the
   channel may be closed or stopped (and the stop's clean-up may run).  dispatch_data objects are ABSTRACT: an object denotes an interval [start, start+len) of the byte stream of
   this operation (bytes consumed from the descriptor for a read, the submitted data for a write) - data.c itself is decided under C13.  A concatenation whose parts are not adjacent,
   a buffer handed over with the wrong fill, a read into the wrong place ... is reported at the stub.  The handler block, queues, groups and sources are tokens with counters;
   blocks submitted to the operation's queue run at once (it is a serial queue that nothing else uses: FIFO = immediate, the handler is checked not to be re-entered).  */
#include "hpre.h"
#include "model.c"
#include "hpost.h"
#include "probe.h"
#ifndef DIR
#define DIR 0            /* 0 read, 1 write */
#endif
#ifndef STEPS
#define STEPS 3
#endif
#define DOP_DIR_READ 0
#define DOP_DIR_WRITE 1
#define EAGAIN_ 11
#define EINTR_ 4
#define EIO_ 5
#define EBADF_ 9
#define ECANCELED_ 125
/* ---- tokens (never dereferenced by the library in these paths; a dereference faults in the memory model) ---- */
#define TOK_OPQ      0x7000000000001000ull
#define TOK_STREAMQ  0x7000000000002000ull
#define TOK_SOURCE   0x7000000000003000ull
#define TOK_CLOSEQ   0x7000000000004000ull
#define TOK_BARRQ    0x7000000000005000ull
#define TOK_BARRG    0x7000000000006000ull
#define TOK_TARGETQ  0x7000000000007000ull
#define RBUF_BASE    0x6000000000000000ull       /* read buffers: RBUF_BASE + k * 2^40 */
#define WBUF_BASE    0x5000000000000000ull       /* mapped write data: WBUF_BASE + absolute offset in the submitted data */
#define DATA_BASE    0x4000000000000000ull       /* abstract data objects: DATA_BASE + 64 * index */
/* ---- generic environment ---- */
u64 _dispatch_calloc(u64 n, u64 sz) { return ir_bump(n * sz); }
u64 calloc(u64 n, u64 sz) { return ir_bump(n * sz); } u64 malloc(u64 n) { return ir_bump(n); }
void _dispatch_bug(u64 l, u64 v) { ASSERT(0, "_dispatch_bug reached"); }
u64 ir_dyn_alloca(u64 n) { ASSERT(0, "dynamic alloca"); return 0; }
void libdispatch_tsd_init(void) { }
u32 getpagesize(void) { return 4096; }
void _dispatch_log(u64 a, ...) { }
static u64 errno_cell; u64 __errno_location(void) { return errno_cell; }
u64 _Block_copy(u64 b) { return b; }
static int handler_released, handler2_released; static u64 HANDLER, HANDLER2, OP2;
#ifndef TWO
#define TWO 0      /* 1: a second operation of the same direction and channel is queued behind the first (submission order) */
#endif
#define NOPS_ (1 + TWO)
#define S2BASE (1ull << 50)          /* the second operation's submitted data lives at these offsets of the abstract byte space: any mix-up with the first operation's bytes is an interval mismatch */
void _Block_release(u64 b) { if (b == HANDLER) handler_released++; if (TWO && b == HANDLER2) handler2_released++; }
/* ---- abstract data objects ---- */
#define NDATA 24
static u64 d_start[NDATA], d_len[NDATA]; static int d_refs[NDATA]; static int ndata;
static _Bool d_is_empty_global(u64 d) { return d == G__dispatch_data_empty; }
static int d_idx(u64 d) { ASSERT(d >= DATA_BASE && d < DATA_BASE + 64ull * NDATA && ((d - DATA_BASE) & 63) == 0, "DATA: the library passes something that is no data object"); int i = (int)((d - DATA_BASE) / 64); ASSERT(i >= 0 && i < ndata, "DATA: unknown data object"); if (i < 0 || i >= NDATA) i = 0; ASSERT(d_refs[i] > 0, "DATA: data object used after its last release"); return i; }
static u64 D_start(u64 d) { return d_is_empty_global(d) ? 0 : d_start[d_idx(d)]; }
static u64 D_len(u64 d) { return d_is_empty_global(d) ? 0 : d_len[d_idx(d)]; }
static u64 d_new(u64 start, u64 len) { ASSERT(ndata < NDATA, "harness bound: data objects"); int i = ndata < NDATA ? ndata : 0; ndata++; d_start[i] = start; d_len[i] = len; d_refs[i] = 1; return DATA_BASE + 64ull * i; }
u64 dispatch_data_get_size(u64 d) { ASSERT(d != 0, "DATA: dispatch_data_get_size(NULL)"); return d ? D_len(d) : 0; }
static int q_retains, q_releases;
void dispatch_retain(u64 o) { if (o == TOK_OPQ || o == TOK_TARGETQ) { q_retains++; return; } if (d_is_empty_global(o)) return; d_refs[d_idx(o)]++; }
void dispatch_release(u64 o) { if (o == TOK_OPQ || o == TOK_TARGETQ) { q_releases++; return; } if (d_is_empty_global(o)) return; d_refs[d_idx(o)]--; }
/* read buffers */
static u64 rb_addr, rb_size, rb_fill, rb_pos; static int nrbuf; static _Bool rb_live, rb_owned_by_data;
static u64 consumed;          /* bytes taken from the descriptor by read() so far */
static u64 OP;
u32 posix_memalign(u64 pp, u64 align, u64 size) {
  ASSERT(pp == OP + P_OFF_op_buf, "SUBMISSION ORDER: a read buffer is allocated for an operation other than the first of the stream (a later operation performs I/O before the earlier one has completed)");
  ASSERT(!rb_live || rb_owned_by_data || rb_fill == 0, "CONSERVE: a new read buffer replaces one that still holds undelivered bytes");
  ASSERT(size >= 1, "BUFFER: the read buffer has room for at least one byte (a zero-length read would be taken for end of file)");
  rb_addr = RBUF_BASE + ((u64)nrbuf << 40); nrbuf++; rb_size = size; rb_fill = 0; rb_pos = consumed; rb_live = 1; rb_owned_by_data = 0;
  IR_ST64(pp, rb_addr); return 0; }
void free(u64 p) { if (p == 0) return; if (p == rb_addr && rb_live && !rb_owned_by_data) { ASSERT(rb_fill == 0, "CONSERVE: a read buffer holding undelivered bytes is freed"); rb_live = 0; return; } ASSERT(0, "free of something that is no live read buffer owned by the operation"); }
u64 dispatch_data_create(u64 buf, u64 len, u64 q, u64 destructor) {
  ASSERT(DIR == DOP_DIR_READ, "dispatch_data_create in a write");
  ASSERT(buf == rb_addr && rb_live && !rb_owned_by_data, "BUFFER: the buffer wrapped into a data object is the operation's current read buffer");
  ASSERT(len == rb_fill, "CONSERVE: the data object made from the read buffer covers exactly the bytes read into it");
  ASSERT(destructor == IR_LD64(G__dispatch_data_destructor_free), "BUFFER: the buffer is handed over with the free destructor");
  rb_owned_by_data = 1; return len ? d_new(rb_pos, len) : G__dispatch_data_empty; }
u64 dispatch_data_create_concat(u64 a, u64 b) {
  u64 la = D_len(a), lb = D_len(b);
  if (la == 0) { dispatch_retain(b); return b; }
  if (lb == 0) { dispatch_retain(a); return a; }
  ASSERT(D_start(a) + la == D_start(b), "ORDER: data is concatenated out of order (the parts are not adjacent pieces of the byte stream)");
  return d_new(D_start(a), la + lb); }
u64 dispatch_data_create_subrange(u64 d, u64 off, u64 len) {
  u64 l = D_len(d), s = D_start(d);
  if (off >= l || len == 0) return G__dispatch_data_empty;
  u64 room = l - off; if (len > room) len = room;
  if (len == l) { dispatch_retain(d); return d; }
  return d_new(s + off, len); }
u64 dispatch_data_create_map(u64 d, u64 bufp, u64 sizep) {
  u64 l = D_len(d);
  if (bufp) IR_ST64(bufp, l ? WBUF_BASE + D_start(d) : 0); if (sizep) IR_ST64(sizep, l);
  if (l == 0) return G__dispatch_data_empty;
  dispatch_retain(d); return d; }
/* fragmentation of the submitted data: up to three regions with arbitrary boundaries */
static u64 in_cut1, in_cut2, in_length;
_Bool dispatch_data_apply(u64 d, u64 blk) {
  u64 s = D_start(d), e = s + D_len(d); u64 cuts[4] = { 0, in_cut1, in_cut2, in_length };
  for (int k = 0; k < 3; k++) {
    u64 a = cuts[k] > s ? cuts[k] : s, b = cuts[k + 1] < e ? cuts[k + 1] : e;
    if (a < b) { _Bool more = IR_CALL_APPLIER5(IR_LD64(blk + P_OFF_block_invoke), blk, 0, a - s, WBUF_BASE + a, b - a); if (!more) return 0; }
  }
  return 1; }
/* ---- descriptor ---- */
#define NSYS (2 * STEPS)
static u8 in_kind[NSYS]; static u64 in_n[NSYS]; static u8 in_errno[NSYS]; static int nsys, eintr_in_row;
static int eof_seen, hard_err, nread_calls; static u64 written;
static u64 sys_outcome(u64 len, _Bool is_write) {
  ASSERT(nsys < NSYS, "harness bound: system calls"); int k = nsys < NSYS ? nsys : 0; nsys++;
  SYM_AT(in_kind, k); SYM_AT(in_n, k); SYM_AT(in_errno, k);
  u8 kind = in_kind[k] % 3;
#ifdef KIND0
  if (k == 0) kind = KIND0;                            /* case split by the driver on the outcome of the first system call */
#endif
  _Bool fails = kind == 2 || (kind == 1 && is_write);
  if (!fails) eintr_in_row = 0;
  if (kind == 0) { ASSUME(in_n[k] >= 1 && in_n[k] <= len && in_n[k] < (1ull << 62)); return in_n[k]; }   /* some bytes: never more than asked for, and a non-negative ssize_t */
  if (kind == 1 && !is_write) { eof_seen++; return 0; }                                 /* end of file / peer hang-up */
  u8 e = in_errno[k] % 4; u32 en = e == 0 ? EAGAIN_ : e == 1 ? EINTR_ : e == 2 ? EIO_ : EBADF_;
  if (en == EINTR_) { ASSUME(eintr_in_row == 0); eintr_in_row++; } else eintr_in_row = 0;   /* bound: EINTR (retried at once by the same code) at most once in a row */
  if (en != EAGAIN_ && en != EINTR_) hard_err = (int)en;
  IR_ST32(errno_cell, en); return ~0ull; }
u64 read(u32 fd, u64 buf, u64 len) {
  ASSERT(DIR == DOP_DIR_READ, "read() in a write operation"); ASSERT(fd == 5, "DESCRIPTOR: the operation reads its own descriptor");
  ASSERT(rb_live && !rb_owned_by_data && buf == rb_addr + rb_fill, "ORDER: bytes are read to the end of what the current buffer already holds (no gap, no overwrite)");
  ASSERT(len >= 1 && rb_fill + len <= rb_size, "BUFFER: the read stays inside the buffer and asks for at least one byte");
  u64 r = sys_outcome(len, 0);
  if (r != ~0ull) { rb_fill += r; consumed += r; }
  return r; }
u64 write(u32 fd, u64 buf, u64 len) {
  ASSERT(DIR == DOP_DIR_WRITE, "write() in a read operation"); ASSERT(fd == 5, "DESCRIPTOR: the operation writes its own descriptor");
  ASSERT(buf == WBUF_BASE + written, "ORDER: the bytes handed to write() start at the first byte of the submitted data not yet written");
  ASSERT(len >= 1 && written + len <= in_length, "BUFFER: write() is asked for at least one byte and not beyond the submitted data");
  u64 r = sys_outcome(len, 1);
  if (r != ~0ull) written += r;
  return r; }
u64 pread(u32 fd, u64 buf, u64 len, u64 off) { ASSERT(0, "pread on a stream operation"); return 0; }
u64 pwrite(u32 fd, u64 buf, u64 len, u64 off) { ASSERT(0, "pwrite on a stream operation"); return 0; }
/* ---- queues, groups, sources ---- */
static int closeq_susp, src_susp = 1 /* the descriptor source starts suspended */, grp_leave, resched, barrier_blocks, os_disposes, os_disposes2; static u64 STREAM, FDE, CHAN;
void dispatch_suspend(u64 o) { if (o == TOK_CLOSEQ) closeq_susp++; else if (o == TOK_SOURCE) src_susp++; else ASSERT(0, "suspend of an unexpected object"); }
void dispatch_resume(u64 o) { if (o == TOK_CLOSEQ) { closeq_susp--; ASSERT(closeq_susp >= 0, "CLEANUP: the close queue is resumed more often than suspended (the clean-up handler could run before the handlers)"); } else if (o == TOK_SOURCE) { src_susp--; ASSERT(src_susp >= 0, "the descriptor source is resumed more often than suspended (over-resume crashes)"); } else ASSERT(0, "resume of an unexpected object"); }
void dispatch_group_enter(u64 g) { ASSERT(0, "group enter in these paths"); }
void dispatch_group_leave(u64 g) { ASSERT(g == TOK_BARRG, "barrier group"); grp_leave++; }
void dispatch_source_cancel(u64 s) { ASSERT(0, "no interval timer in this harness"); }
u64 dispatch_get_context(u64 o) { ASSERT(o == TOK_STREAMQ, "context of the stream queue"); return STREAM; }
void dispatch_async_f(u64 q, u64 ctxt, u64 f) { ASSERT(q == TOK_STREAMQ && ctxt == TOK_STREAMQ && f == FN__dispatch_stream_queue_handler, "the only function submitted is the stream handler on the stream queue"); resched++; }
u32 _dispatch_fd_entry_open(u64 fde, u64 ch) { ASSERT(0, "descriptor is open"); return 0; }
u64 _dispatch_stream_source(u64 st, u64 op) { return TOK_SOURCE; }
static u64 pending_barrier_block, allow_free_cell;   /* allocated up front: allocation on a data-dependent path would make every later address symbolic */
void _dispatch_fd_entry_cleanup_operations(u64 fde, u64 ch);
/* the handler (a block whose invoke function is this harness function) = the oracle */
static int invocations, done_count, in_handler; static u64 delivered; static u32 done_err; static _Bool stopped_at_some_point; static u64 g_high;
static int invocations2, done_count2; static u64 in_length2;
void vp_handler(u64 blk, _Bool done, u64 data, u32 err) {
#if TWO
  if (blk == HANDLER2) {   /* the second operation: within one step it can only be completed (error / cancellation), and only after the first one has seen done */
    ASSERT(in_handler == 0, "REENTRY");
    ASSERT(done_count == 1, "SUBMISSION ORDER: the handler of a later operation runs before the earlier operation of the same direction has seen done");
    ASSERT(done_count2 == 0, "DONE: the handler is invoked again after it has seen done");
    invocations2++; ASSERT(done && err != 0, "a queued operation that never performed I/O completes in one done invocation that carries the error");
    if (DIR == DOP_DIR_READ) ASSERT(data == 0 || D_len(data) == 0, "a read that never performed I/O delivers no data");
    else ASSERT(data != 0 && D_start(data) == S2BASE && D_len(data) == in_length2, "CONSERVE: a write that never performed I/O reports all of its data as unwritten");
    if (done) done_count2++;
    return; }
#endif
  ASSERT(blk == HANDLER, "handler block");
  ASSERT(in_handler == 0, "REENTRY: the handler is entered while it is running");
  in_handler++; invocations++;
  ASSERT(done_count == 0, "DONE: the handler is invoked again after it has seen done");
  u64 len = data ? D_len(data) : 0, start = data ? D_start(data) : 0;
#if DIR == DOP_DIR_READ
  if (len) ASSERT(start == delivered, "ORDER/ONCE: the data passed to the handler is the next piece of the bytes consumed from the descriptor (nothing skipped, repeated or reordered)");
  ASSERT(len <= g_high, "HIGH-WATER: one invocation carries more bytes than the high-water mark");
  delivered += len;
  ASSERT(delivered <= consumed, "ONCE: more bytes delivered than consumed");
  if (done) { ASSERT(delivered == consumed, "CONSERVE: when the handler sees done, every byte consumed from the descriptor has been passed to it"); }
#else
  if (data) { ASSERT(len == 0 || start == written, "CONSERVE: the data reported as unwritten starts right after the bytes that reached the descriptor");
              ASSERT(start + len == in_length || len == 0, "CONSERVE: the data reported as unwritten extends to the end of the submitted data");
              ASSERT(len == in_length - written, "CONSERVE: written bytes followed by the unwritten data are exactly the submitted data"); }
  else ASSERT(done && err == 0 && written == in_length, "CONSERVE: a write reports no remaining data only when it is done, without error, and everything was written");
#endif
  if (done && (IR_LD32(CHAN + P_OFF_chan_flags) & 2u) && !hard_err) ASSERT(err == ECANCELED_, "STOP: an operation that completes on a stopped channel reports ECANCELED");
  if (done) { done_count++; done_err = err; }
  in_handler--; }
void dispatch_async(u64 q, u64 blk) {
  if (q == TOK_OPQ) { IR_CALL_V_U64(IR_LD64(blk + P_OFF_block_invoke), blk); return; }
  if (q == TOK_BARRQ) {                                    /* descriptor-error clean-up (EBADF): the block is copied (Block_copy) and runs in a later step */
    ASSERT(barrier_blocks == 0, "harness bound: one barrier block"); barrier_blocks++;
    u64 sz = IR_LD64(IR_LD64(blk + P_OFF_block_descriptor) + 8); ASSERT(sz <= 64, "harness bound: barrier block size"); 
    for (int i = 0; i < 8; i++) if ((u64)i * 8 < sz) IR_ST64(pending_barrier_block + 8 * i, IR_LD64(blk + 8 * i));
    return; }
  ASSERT(0, "asynchronous block on an unexpected queue"); }
void _dispatch_fd_entry_cleanup_operations(u64 fde, u64 ch) { ASSERT(fde == FDE, "descriptor entry"); _dispatch_stream_cleanup_operations(STREAM, ch); }   /* the hop to the stream queue is taken at once */
void _os_object_dispose(u64 o) {
#if TWO
  if (o == OP2) { os_disposes2++; ASSERT(os_disposes2 == 1 && os_disposes == 1, "SUBMISSION ORDER: the second operation is disposed once, after the first"); if (os_disposes2 != 1) return; _dispatch_operation_dispose(OP2, allow_free_cell); return; }
#endif
  ASSERT(o == OP, "only the operation may lose its last reference"); if (o != OP) return;
  os_disposes++; ASSERT(os_disposes == 1, "the operation is disposed once"); if (os_disposes != 1) return;
  _dispatch_operation_dispose(OP, allow_free_cell); }
static u8 in_ev[STEPS], in_conv; static u64 in_low, in_high, in_chunk;
#define TOK_TIMER    0x7000000000008000ull
/* ---- the invariant of an operation between two runs of the stream handler (what MODE 1 assumes before its single step and every mode checks after a step) ---- */
static _Bool inv_read(u64 dl, u64 bl, u64 bs, _Bool hasbuf, u64 total) {
  _Bool a = total < in_length && dl <= total && bl <= total - dl;
  _Bool b = (dl + bl == 0) || (dl + bl < in_low);                              /* whatever reached the low-water mark has been delivered */
  _Bool c = hasbuf ? (bs >= 1 && bl < bs && dl <= in_high && bs <= in_high - dl          /* buffer not full, and sized so that pending data + buffer never exceed high water */
                      && (in_length == ~0ull || (bl <= total && bs <= in_length - (total - bl))))   /* ... nor the requested length */
                   : (bl == 0);
  return a && b && c; }
static _Bool inv_write(u64 bl, u64 bs, _Bool hasbuf, u64 total) {
  return total < in_length && bl <= total && (hasbuf ? (bs >= 1 && bl < bs && bs <= in_length - (total - bl)) : bl == 0); }
static u64 subm2;
#if TWO
static void check_untouched2(void) {   /* the second operation has not been started */
  ASSERT(IR_LD64(OP2 + P_OFF_op_total) == 0 && IR_LD64(OP2 + P_OFF_op_buf) == 0 && IR_LD64(OP2 + P_OFF_op_buflen) == 0 && IR_LD64(OP2 + P_OFF_op_undelivered) == 0 && IR_LD64(OP2 + P_OFF_op_bufdata) == 0
         && IR_LD64(OP2 + P_OFF_op_data) == subm2 && IR_LD32(OP2 + P_OFF_ref) == 0 && invocations2 == 0 && os_disposes2 == 0 && handler2_released == 0,
         "SUBMISSION ORDER: an operation queued behind another one of the same direction is not touched before that one completes"); }
#endif
static void check_inflight_state(void) {
  u64 h = STREAM + P_OFF_st_ops, l = OP + P_OFF_op_list;
#if TWO
  u64 l2 = OP2 + P_OFF_op_list;
  ASSERT(IR_LD64(h) == OP && IR_LD64(h + 8) == OP2 && IR_LD64(l) == OP2 && IR_LD64(l + 8) == 0 && IR_LD64(l2) == 0 && IR_LD64(l2 + 8) == OP, "QUEUE: while the first operation has not completed the list is (first, second) in submission order");
  check_untouched2();
#else
  ASSERT(IR_LD64(h) == OP && IR_LD64(h + 8) == OP && IR_LD64(l) == 0 && IR_LD64(l + 8) == 0, "QUEUE: an operation that has not completed is still the only element of the stream's list");
#endif
  ASSERT(IR_LD32(CHAN + P_OFF_ref) == 9 + NOPS_ && IR_LD32(OP + P_OFF_ref) == 0, "REFS: between two runs of the stream handler every queued operation holds one reference to the channel and is itself referenced once");
  ASSERT(grp_leave == 0 && handler_released == 0, "an operation that is still in flight keeps its barrier-group membership and its handler");
  ASSERT(closeq_susp == NOPS_ + (barrier_blocks == 1), "CLEANUP: between two runs exactly the queued operations (and a pending descriptor clean-up) hold the close queue");
  u64 total = IR_LD64(OP + P_OFF_op_total), data = IR_LD64(OP + P_OFF_op_data), buf = IR_LD64(OP + P_OFF_op_buf), bl = IR_LD64(OP + P_OFF_op_buflen), bs = IR_LD64(OP + P_OFF_op_bufsiz);
  ASSERT(data != 0, "the operation always has a data object");
  u64 dl = data ? D_len(data) : 0; _Bool hasbuf = buf != 0;
#if DIR == DOP_DIR_READ
  ASSERT(total == consumed, "ACCOUNT: op->total is the number of bytes consumed from the descriptor");
  ASSERT(IR_LD64(OP + P_OFF_op_undelivered) == dl, "ACCOUNT: op->undelivered is the size of the pending data");
  ASSERT(dl == 0 || D_start(data) == delivered, "ORDER: the pending data starts where the delivered bytes end");
  if (hasbuf) ASSERT(buf == rb_addr && rb_live && !rb_owned_by_data && bl == rb_fill && bs == rb_size && rb_pos == delivered + dl, "ACCOUNT: the operation's buffer is the live read buffer, filled with the bytes that follow the pending data");
  else ASSERT(!(rb_live && !rb_owned_by_data), "BUFFER: a read buffer is neither owned by the operation nor by a data object (leak, and its bytes are lost)");
  ASSERT(delivered + dl + bl == consumed, "CONSERVE: delivered + pending + buffered = consumed");
  ASSERT(inv_read(dl, bl, bs, hasbuf, total), "INVARIANT(read): low/high-water and length bounds of the pending data and the buffer");
#else
  ASSERT(total == written, "ACCOUNT: op->total is the number of bytes that reached the descriptor");
  ASSERT(bl <= written && D_start(data) == written - bl && D_start(data) + dl == in_length, "CONSERVE: the operation's data is the submitted data from the start of the current buffer to the end");
  u64 bd = IR_LD64(OP + P_OFF_op_bufdata);
  if (hasbuf) ASSERT(bd != 0 && buf == WBUF_BASE + (written - bl) && D_start(bd) == written - bl && D_len(bd) == bs, "ACCOUNT: the write buffer maps the head of the operation's data");
  else ASSERT(bd == 0, "no mapped buffer object without a buffer");
  ASSERT(inv_write(bl, bs, hasbuf, total), "INVARIANT(write): a partially written buffer lies inside the submitted data");
#endif
  _Bool running = IR_LD8(STREAM + P_OFF_st_running) & 1;
  ASSERT((resched == 1 && src_susp == 1 && !running) || (resched == 0 && src_susp == 0 && running) || (barrier_blocks == 1 && resched == 0 && src_susp == 1 && !running),
         "STUCK: an operation that has not completed has exactly one thing that will run it again: the scheduled stream handler, the armed descriptor source, or the pending descriptor clean-up");
}
static void repin(void) {   /* the pointers the library will follow are known on this path: store them back as constants - after the join of a step's alternatives they are
                               if-then-else terms, and following such a pointer through the paged memory does not scale (checked equal by check_inflight_state first) */
  u64 h = STREAM + P_OFF_st_ops, l = OP + P_OFF_op_list;
  ASSERT(!TWO, "harness: bounded histories are single-operation"); IR_ST32(CHAN + P_OFF_ref, 10); IR_ST32(OP + P_OFF_ref, 0); IR_ST64(h, OP); IR_ST64(h + 8, OP); IR_ST64(l, 0); IR_ST64(l + 8, 0); }
static u64 in_total, in_dl, in_bl, in_bs, in_undel; static u8 in_hasbuf, in_chflags, in_trigger, in_fderr, in_tflag;
void harness(void) {
  ir_init_globals(); ir_heap_next = IR_HEAP_BASE; IR_ST32(TLS___dispatch_tsd(0), 0x104);
  errno_cell = ir_bump(8); allow_free_cell = ir_bump(8); pending_barrier_block = ir_bump(64);
  OP = ir_bump(P_SZ_op); OP2 = ir_bump(P_SZ_op); HANDLER2 = ir_bump(P_SZ_block_layout); IR_ST64(HANDLER2 + P_OFF_block_invoke, FN_vp_handler); STREAM = ir_bump(P_SZ_stream); FDE = ir_bump(P_SZ_fde); CHAN = ir_bump(P_SZ_chan); HANDLER = ir_bump(P_SZ_block_layout);
  IR_ST64(HANDLER + P_OFF_block_invoke, FN_vp_handler);
  SYM(in_low); SYM(in_high); SYM(in_length); SYM(in_chunk); SYM(in_cut1); SYM(in_cut2); SYM(in_conv);
  ASSUME(in_high >= 1 && in_low <= in_high);          /* what dispatch_io_set_low_water / set_high_water maintain */
  ASSUME(in_length >= 1);                              /* zero-length operations never become operation objects */
  ASSUME(in_chunk >= 1);
#if DIR == DOP_DIR_WRITE
  ASSUME(in_length < (1ull << 40)); ASSUME(in_cut1 <= in_cut2 && in_cut2 <= in_length);
#endif
  g_high = in_high;
  IR_ST64(G_dispatch_io_defaults + P_OFF_def_chunk, in_chunk);
  /* channel, descriptor entry, stream */
  IR_ST32(CHAN + P_OFF_ref, 9 + NOPS_); IR_ST32(CHAN + P_OFF_chan_flags, 0); IR_ST64(CHAN + P_OFF_chan_fde, FDE);
  IR_ST32(FDE + P_OFF_fde_fd, 5); IR_ST64(FDE + P_OFF_fde_closeq, TOK_CLOSEQ); IR_ST64(FDE + P_OFF_fde_barrq, TOK_BARRQ); IR_ST64(FDE + P_OFF_fde_barrg, TOK_BARRG);
  IR_ST64(FDE + P_OFF_fde_streams + 8 * DIR, STREAM); IR_ST64(FDE + P_OFF_fde_conv, (in_conv & 1) ? CHAN : 0);
  IR_ST64(STREAM + P_OFF_st_dq, TOK_STREAMQ); IR_ST64(STREAM + P_OFF_st_source, TOK_SOURCE);
  /* both operation lists empty: TAILQ_INIT of src/shims/generic_sys_queue.h = {NULL, NULL}, which zeroed memory already is */
  /* the operation as _dispatch_operation_create + _dispatch_operation_enqueue leave it */
  IR_ST32(OP + P_OFF_ref, 0); IR_ST32(OP + P_OFF_xref, (u32)-1);
  IR_ST64(OP + P_OFF_op_q, TOK_OPQ); IR_ST32(OP + P_OFF_op_dir, DIR); IR_ST32(OP + P_OFF_op_type, 0 /* DISPATCH_IO_STREAM */);
  IR_ST64(OP + P_OFF_op_low, in_low); IR_ST64(OP + P_OFF_op_high, in_high); IR_ST64(OP + P_OFF_op_length, in_length);
  IR_ST64(OP + P_OFF_op_handler, HANDLER); IR_ST64(OP + P_OFF_op_channel, CHAN); IR_ST64(OP + P_OFF_op_fde, FDE);
  u64 subm = DIR == DOP_DIR_READ ? G__dispatch_data_empty : d_new(0, in_length);
#if MODE == 2
  /* ---- an operation scheduled on a channel that is already closed or stopped: real _dispatch_operation_enqueue (what runs on the barrier queue after dispatch_io_read / dispatch_io_write) ---- */
  SYM(in_chflags); ASSUME(in_chflags == 1 || in_chflags == 3);
  IR_ST32(CHAN + P_OFF_chan_flags, in_chflags); IR_ST64(OP + P_OFF_op_fde, 0);     /* the descriptor entry is attached only once the channel is known to be open */
  _dispatch_operation_enqueue(OP, DIR, subm);
  if (DIR == DOP_DIR_WRITE) dispatch_release(subm);
  ASSERT(invocations == 1 && done_count == 1 && done_err == ECANCELED_, "CLOSED: an operation scheduled on a closed channel completes with exactly one handler invocation: done, ECANCELED");
  ASSERT(nsys == 0 && consumed == 0 && written == 0, "CLOSED: no byte is moved for an operation scheduled on a closed channel");
  ASSERT(os_disposes == 1 && handler_released == 1 && grp_leave == 0 && closeq_susp == 0 && resched == 0, "CLOSED: the operation is released without touching the stream, the barrier group or the close queue");
  ASSERT(IR_LD32(CHAN + P_OFF_ref) == 9, "the channel reference held by the operation is dropped exactly once");
  for (int i = 0; i < NDATA; i++) if (i < ndata) ASSERT(d_refs[i] == 0, "DATA: every data object created for the operation is released exactly as often as retained");
  WITNESS_REACHED("operation on a closed channel completed");
  return;
#endif
  closeq_susp = NOPS_;                                 /* _dispatch_operation_enqueue retained the descriptor entry for each operation */
  _dispatch_stream_enqueue_operation(STREAM, OP, subm);
  ASSERT(resched == 1, "the first operation on an idle stream schedules the stream handler");
  if (DIR == DOP_DIR_WRITE) dispatch_release(subm);   /* the caller's reference */
#if TWO
  /* a second operation of the same direction on the same channel, submitted later (real enqueue) */
  SYM(in_length2); ASSUME(in_length2 >= 1 && in_length2 < (1ull << 40));
  IR_ST32(OP2 + P_OFF_ref, 0); IR_ST32(OP2 + P_OFF_xref, (u32)-1); IR_ST64(OP2 + P_OFF_op_q, TOK_OPQ); IR_ST32(OP2 + P_OFF_op_dir, DIR); IR_ST32(OP2 + P_OFF_op_type, 0);
  IR_ST64(OP2 + P_OFF_op_low, in_low); IR_ST64(OP2 + P_OFF_op_high, in_high); IR_ST64(OP2 + P_OFF_op_length, in_length2);
  IR_ST64(OP2 + P_OFF_op_handler, HANDLER2); IR_ST64(OP2 + P_OFF_op_channel, CHAN); IR_ST64(OP2 + P_OFF_op_fde, FDE);
  subm2 = DIR == DOP_DIR_READ ? G__dispatch_data_empty : d_new(S2BASE, in_length2);
  _dispatch_stream_enqueue_operation(STREAM, OP2, subm2);
  ASSERT(resched == 1, "a further operation on a busy stream does not schedule the stream handler again");
  if (DIR == DOP_DIR_WRITE) dispatch_release(subm2);
#endif
  check_inflight_state();                              /* base case: the state right after the enqueue satisfies the invariant */
#if MODE == 0
  /* ---- bounded history from the initial state ---- */
  for (int s = 0; s < STEPS; s++) {
    /* what other threads do between two runs of the stream handler */
    SYM_AT(in_ev, s); u8 ev = in_ev[s] % 4;
#ifdef EV0
    if (s == 0) ev = EV0;                              /* case split by the driver (two-operation harnesses: a symbolic error condition would unroll the handler's pick loop over both operations) */
#endif
    if (ev == 1) IR_ST32(CHAN + P_OFF_chan_flags, IR_LD32(CHAN + P_OFF_chan_flags) | 1u);                       /* dispatch_io_close(channel, 0) */
    if (ev == 2 || ev == 3) { IR_ST32(CHAN + P_OFF_chan_flags, IR_LD32(CHAN + P_OFF_chan_flags) | 3u); }      /* dispatch_io_close(channel, DISPATCH_IO_STOP) */
    if (os_disposes) break;
    if (s >= 1) { ASSERT(IR_LD64(STREAM + P_OFF_st_op) == OP, "QUEUE: an operation that has started and not completed is the stream's current operation"); check_inflight_state(); repin(); IR_ST64(STREAM + P_OFF_st_op, OP); }
    if (barrier_blocks > 0) { barrier_blocks = -1; closeq_susp += 0; ASSERT(IR_LD64(pending_barrier_block + P_OFF_block_invoke) == FN____dispatch_stream_handler_block_invoke, "the barrier block is the stream handler's clean-up block"); ___dispatch_stream_handler_block_invoke(pending_barrier_block); }   /* the descriptor-error clean-up block runs */
    else if (ev == 3) { _dispatch_stream_cleanup_operations(STREAM, CHAN); }                                          /* ... and its clean-up reaches the stream queue */
    else if (resched > 0) { resched--; _dispatch_stream_queue_handler(TOK_STREAMQ); }
    else if (src_susp == 0) { _dispatch_stream_source_handler(STREAM); }   /* the descriptor became ready */
    else { ASSERT(0, "STUCK: the operation has not completed, the stream handler is not scheduled and the descriptor source is not armed: the operation can never finish"); }
  }
#else
  /* ---- one step from an ARBITRARY state satisfying the invariant (induction step: together with the base case above this covers histories of any length) ---- */
  SYM(in_total); SYM(in_dl); SYM(in_bl); SYM(in_bs); SYM(in_undel); SYM(in_hasbuf); SYM(in_chflags); SYM(in_trigger); SYM(in_fderr); SYM(in_tflag);
  ASSUME(in_total < (1ull << 62));     /* envelope: fewer than 2^62 bytes moved so far (an unbounded read, length = SIZE_MAX, cannot wrap its 64-bit byte counter in practice) */
#ifdef HASBUF
  in_hasbuf = HASBUF;                                  /* case split by the driver */
#endif
#ifdef CHF
  in_chflags = CHF;
#endif
#ifdef FDERR
  in_fderr = FDERR;
#endif
  _Bool hasbuf = in_hasbuf & 1;      /* the stream handler has run for this operation at least once (stream->op == op): the not-yet-started state is the base case, MODE 0 */
#if DIR == DOP_DIR_READ
  ASSUME(inv_read(in_dl, in_bl, in_bs, hasbuf, in_total));
  consumed = in_total; delivered = in_total - in_dl - in_bl;
  IR_ST64(OP + P_OFF_op_total, in_total); IR_ST64(OP + P_OFF_op_undelivered, in_dl);
  IR_ST64(OP + P_OFF_op_data, in_dl ? d_new(delivered, in_dl) : G__dispatch_data_empty);
  if (hasbuf) { rb_addr = RBUF_BASE; nrbuf = 1; rb_size = in_bs; rb_fill = in_bl; rb_pos = delivered + in_dl; rb_live = 1; rb_owned_by_data = 0; IR_ST64(OP + P_OFF_op_buf, rb_addr); }
  IR_ST64(OP + P_OFF_op_buflen, in_bl); IR_ST64(OP + P_OFF_op_bufsiz, in_bs);                  /* without a buffer buf_siz is a stale, arbitrary value */
#else
  ASSUME(inv_write(in_bl, in_bs, hasbuf, in_total));
  written = in_total; u64 w0 = in_total - in_bl;
  if (w0 != 0) { dispatch_release(subm); IR_ST64(OP + P_OFF_op_data, d_new(w0, in_length - w0)); }
  IR_ST64(OP + P_OFF_op_total, in_total); IR_ST64(OP + P_OFF_op_undelivered, in_undel);        /* for a write the counter only decides WHEN progress is reported: arbitrary */
  if (hasbuf) { IR_ST64(OP + P_OFF_op_buf, WBUF_BASE + w0); IR_ST64(OP + P_OFF_op_bufdata, d_new(w0, in_bs)); }
  IR_ST64(OP + P_OFF_op_buflen, in_bl); IR_ST64(OP + P_OFF_op_bufsiz, in_bs);
#endif
  IR_ST64(STREAM + P_OFF_st_op, OP);
  u8 chf = in_chflags % 3; IR_ST32(CHAN + P_OFF_chan_flags, chf == 0 ? 0 : chf == 1 ? 1u : 3u);                 /* open / closed / stopped */
  if (in_fderr & 1) IR_ST32(FDE + P_OFF_fde_err, EBADF_);                                                        /* an earlier descriptor error whose clean-up has not run yet */
  u8 trig = in_trigger % 4;
#ifdef TRIG
  trig = TRIG;                                         /* case split by the driver: one query per kind of step */
#endif
  _Bool armed = (trig == 1) || ((trig == 2) && (in_tflag & 2));
  if (armed) { resched = 0; src_susp = 0; IR_ST8(STREAM + P_OFF_st_running, 1); }
  check_inflight_state();                              /* (sanity: the constructed state satisfies what is checked afterwards) */
  int resched0 = resched, susp0 = src_susp;
  if (trig == 0) { resched--; _dispatch_stream_queue_handler(TOK_STREAMQ); }                                      /* the scheduled stream handler runs */
  else if (trig == 1) { _dispatch_stream_source_handler(STREAM); }                                                /* the descriptor became ready */
  else if (trig == 2) { _dispatch_operation_deliver_data(OP, (in_tflag & 1) ? 1u /* DOP_DELIVER: strict interval */ : 0u); ASSERT(resched == resched0 && src_susp == susp0, "the interval timer does not change what is scheduled"); }   /* the interval timer fires (operation not active) */
  else { IR_ST32(CHAN + P_OFF_chan_flags, 3u); _dispatch_stream_cleanup_operations(STREAM, CHAN); }               /* dispatch_io_close(STOP): its clean-up reaches the stream queue */
  if (barrier_blocks > 0 && os_disposes == 0) { WITNESS_REACHED("descriptor error: clean-up handed to the barrier queue"); }
#endif
  _Bool completed = os_disposes > 0;
  ASSERT(os_disposes <= 1, "the operation is disposed once");
  ASSERT(done_count <= 1, "DONE: the handler sees done at most once");
  if (completed) {
    int alive2 = TWO && os_disposes2 == 0;
    ASSERT(done_count == 1, "DONE: a completed operation has shown done to its handler exactly once");
    ASSERT(grp_leave == 1 + (TWO && !alive2), "BARRIER: a completed operation leaves the descriptor's barrier group exactly once");
    ASSERT(handler_released == 1, "the handler block is released once");
    ASSERT(closeq_susp == (barrier_blocks == 1) + alive2, "CLEANUP: every hold on the close queue taken for the operation and its deliveries is dropped when it has completed");
    ASSERT(IR_LD32(CHAN + P_OFF_ref) == 9 + (u32)alive2, "the channel reference held by the operation is dropped exactly once");
#if TWO
    if (alive2) { u64 h = STREAM + P_OFF_st_ops, l2 = OP2 + P_OFF_op_list;
      ASSERT(IR_LD64(h) == OP2 && IR_LD64(h + 8) == OP2 && IR_LD64(l2) == 0 && IR_LD64(l2 + 8) == 0 && IR_LD64(STREAM + P_OFF_st_op) == 0, "SUBMISSION ORDER: when the first operation completes the second becomes the head of the list and no operation is current");
      check_untouched2();
      _Bool running = IR_LD8(STREAM + P_OFF_st_running) & 1;
      ASSERT((resched == 1 && src_susp == 1 && !running) || (resched == 0 && src_susp == 0 && running) || (barrier_blocks == 1 && resched == 0 && src_susp == 1 && !running), "STUCK: after the first operation completed, the second one has exactly one thing that will run it");
      WITNESS_REACHED("the first operation completed and the second one is next");
    } else { ASSERT(done_count2 == 1 && invocations2 == 1 && handler2_released == 1, "DONE: the second operation completed with exactly one done invocation"); WITNESS_REACHED("both operations completed in this step, in submission order"); }
#endif
    for (int i = 0; i < NDATA; i++) if (i < ndata) ASSERT(d_refs[i] == ((alive2 && DATA_BASE + 64ull * i == subm2) ? 1 : 0), "DATA: every data object created for the operation is released exactly as often as retained");
    ASSERT(!(rb_live && !rb_owned_by_data), "BUFFER: the read buffer of a completed operation is freed or owned by a data object");
    if (done_err == 0) ASSERT(hard_err == 0, "a descriptor error is reported to the handler");
#if DIR == DOP_DIR_READ
    ASSERT(consumed <= in_length, "LENGTH: never more bytes consumed than requested");
    WITNESS_IF(invocations >= 2 && delivered >= 2, "a read completed after at least two handler invocations");
#else
    WITNESS_IF(written >= 2 && written < in_length, "a write completed with an error after part of the data was written");
#endif
  } else {
    check_inflight_state();
    WITNESS_IF(invocations >= 1, "operation still in flight after a delivery");
  }
}
