/* C15 tier S: atomicity of merge and latch on ds_pending_data.  A real data source is created and activated through the API (concrete prefix); then ONE call of
   the real dispatch_source_merge_data, or of the real _dispatch_source_latch_and_call, runs from an arbitrary pending value while other threads merge concurrently
   (their merges are injected right before each atomic access the unit makes to ds_pending_data).  No merged value may be lost, none delivered twice. */
#define NITEMS 2
static void l_pre(unsigned long long a); static void l_rmw(unsigned long long a); static void l_ast(unsigned long long a); static void l_ald(unsigned long long a);
#define IR_RMW_PRE(a, o) l_pre(a)
#define IR_ASTORE_PRE(a, o) l_pre(a)
#define IR_ALOAD_PRE(a, o) l_pre(a)
#define IR_CAS_PRE(a, o) l_pre(a)
#define IR_RMW_DONE(a, old, o) l_rmw(a)
#define IR_ASTORE_DONE(a, v, o) l_ast(a)
#define IR_ALOAD_DONE(a, v, o) l_ald(a)
#include "hist.h"
#ifndef KIND
#define KIND 0
#endif
#define FN_EVENT 0x81ull
static u64 DS, TQ, PADDR; static _Bool on; static u64 in_pending, in_val, in_other[3], in_do[3]; static int nother; static u64 others_sum, others_or;
static int n_rmw, n_ast, n_ald;
static void l_pre(unsigned long long a) { if (!on || a != PADDR) return;
  if (nother < 3) { int k = nother++; SYM_AT(in_do, k); SYM_AT(in_other, k); if (in_do[k] & 1) { ASSUME(in_other[k] != 0 && in_other[k] < (1ull << 40)); u64 cur = IR_LD64(PADDR);
      IR_ST64(PADDR, KIND == 0 ? cur + in_other[k] : KIND == 1 ? (cur | in_other[k]) : in_other[k]); others_sum += in_other[k]; others_or |= in_other[k]; } } }
static void l_rmw(unsigned long long a) { if (on && a == PADDR) n_rmw++; } static void l_ast(unsigned long long a) { if (on && a == PADDR) n_ast++; } static void l_ald(unsigned long long a) { if (on && a == PADDR) n_ald++; }
static void hist_item_body(int i) { } static void hist_on_worker_start(void) { } static void hist_on_worker_end(void) { } static _Bool hist_other_client_step(void) { return 0; }
static int handler_runs; static u64 delivered; static int wakeups; static u32 wakeup_flags;
static _Bool hist_other_callout(u64 ctxt, u64 f) { if (f == FN_EVENT) { handler_runs++; on = 0; delivered = dispatch_source_get_data(DS); on = 1; return 1; } return 0; }
#ifdef H_MERGE
void _dispatch_source_wakeup(u64 ds, u32 qos, u32 flags) { wakeups++; wakeup_flags = flags; }
#endif
void _dispatch_dispose(u64 o) { ASSERT(0, "disposed"); }
void harness(void) {
  ir_init_globals(); hist_threads_init(); ir_cur = 0;
  TQ = dispatch_queue_create(0, 0);
  DS = dispatch_source_create(KIND == 0 ? G__dispatch_source_type_data_add : KIND == 1 ? G__dispatch_source_type_data_or : G__dispatch_source_type_data_replace, 0, 0, TQ);
  dispatch_source_set_event_handler_f(DS, FN_EVENT);
  PADDR = IR_LD64(DS + P_OFF_ds_refs) + P_OFF_ds_pending_data;
  SYM(in_pending); ASSUME(in_pending < (1ull << 41)); IR_ST64(PADDR, in_pending);
#ifdef H_MERGE
  SYM(in_val); ASSUME(in_val < (1ull << 40)); on = 1;
  dispatch_source_merge_data(DS, in_val);
  on = 0; u64 fin = IR_LD64(PADDR);
#if KIND == 0
  ASSERT(fin == in_pending + others_sum + in_val, "NO-LOSS (ADD): a merge adds its value atomically: concurrent merges and this one are all accounted for");
  ASSERT(n_rmw == 1 && n_ast == 0, "the merge is a single atomic read-modify-write");
#elif KIND == 1
  ASSERT(fin == (in_pending | others_or | in_val), "NO-LOSS (OR): a merge ORs its mask atomically");
  ASSERT(n_rmw == 1 && n_ast == 0, "the merge is a single atomic read-modify-write");
#else
  ASSERT(fin == in_val || (nother && 0), "REPLACE: the merged value is stored");
#endif
  ASSERT(wakeups == 1 && (wakeup_flags & P_WAKEUP_MAKE_DIRTY), "RE-DRIVE: every merge wakes the source with MAKE_DIRTY, so that a handler running right now looks at the pending data again");
  WITNESS_IF(nother >= 1 && (in_do[0] & 1), "a concurrent merge interfered");
#else   /* H_LATCH */
  ASSUME(KIND == 2 || in_pending != 0);    /* caller contract: the source is latched only after pending data was observed, and only the latch (exclusive) clears it */ on = 1;
  IR_ST64(TSD(0) + P_OFF_tsd_queue, TQ);
  _dispatch_source_latch_and_call(DS, TQ, 0);
  on = 0; u64 fin = IR_LD64(PADDR);
  if (handler_runs) ASSERT(delivered != 0, "NON-ZERO: a handler invocation never reports zero");
  ASSERT(handler_runs <= 1, "one latch, at most one invocation");
  u64 got = handler_runs ? delivered : 0;
#if KIND == 0
  ASSERT(got + fin == in_pending + others_sum, "NO-LOSS (ADD): what the handler sees plus what stays pending is exactly what was merged - a merge that lands while the latch runs is neither lost nor delivered twice");
#elif KIND == 1
  ASSERT((got | fin) == (in_pending | others_or) && (got & ~(in_pending | others_or)) == 0, "NO-LOSS (OR): delivered and still-pending masks together are the merged masks");
#else
  ASSERT(got == 0 || got == in_pending || got == in_other[0] || got == in_other[1] || got == in_other[2], "REPLACE: a delivered value is one that was merged");
#endif
  WITNESS_IF(handler_runs == 1 && nother >= 1 && (in_do[0] & 1), "latch with a concurrent merge"); WITNESS_IF(handler_runs == 0, "nothing pending: handler not invoked");
#endif
  WITNESS_REACHED("lemma evaluated");
}
