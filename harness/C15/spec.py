import sys, os
sys.path.insert(0, os.path.join(os.path.dirname(__file__), '..', 'common'))
from vlib import H
from st_probes import HIST_PROBES
import hist_spec as HS
ENT = ['dispatch_source_cancel_and_wait', 'dispatch_queue_create', 'dispatch_source_create', 'dispatch_source_set_event_handler_f', 'dispatch_source_set_cancel_handler_f', 'dispatch_source_set_registration_handler_f', 'dispatch_activate', 'dispatch_suspend',
       'dispatch_resume', 'dispatch_source_merge_data', 'dispatch_source_cancel', 'dispatch_source_get_data', '_dispatch_continuation_pop', '__dispatch_tsd',
       '_dispatch_source_type_data_add', '_dispatch_source_type_data_or', '_dispatch_source_type_data_replace']
STUBS = list(HS.H_STUBS) + ['_dispatch_dispose']
ICALL = HS.H_ICALL + ['_dispatch_source_invoke', '_dispatch_source_wakeup', '_dispatch_source_activate', '_dispatch_source_data_create', '_dispatch_source_merge_evt', '_dispatch_source_invoke2', '_dispatch_xref_dispose',
                      '_dispatch_source_set_handler', '_dispatch_source_set_handler_slow', '_dispatch_lane_serial_drain', '_dispatch_call_block_and_release', '_dispatch_source_handler_dispose']
KN = {0: 'add', 1: 'or', 2: 'replace'}
def SRC(seq, kind=0, extra=(), name_extra='', tiers=('quick', 'thorough')):
    return H('SRC_%s%s_%s' % (KN[kind], name_extra, seq.replace('^', 'n')), '../C15/h_src.c', ENT, stubs=STUBS, noglobal=['_dispatch_queue_attrs', '_dispatch_mgr_q'], icall_only=ICALL, nt=3, heap=6144,
             defines=['-DSEQ="%s"' % seq, '-DKIND=%d' % kind] + list(extra), probes=HIST_PROBES, unwind=4, unwindset=HS.UNWINDSET + ',harness.7:10', timeout=600, tiers=tiers, witness_any=True, symbolic=False, mem_gb=16,
             note='%s source, history "%s"%s' % (KN[kind], seq, name_extra))
HARNESSES = []
for k in (0, 1, 2):
    HARNESSES += [SRC(x, k) for x in ('m', 'mm', 'mRm', 'mmRm', 'mR^m', 'mR^mRm', 'mmR^mm', 'SmmrR', 'mSmr', 'SmRrm', 'mRSmRrR')]
# the source targets a global (overcommit) root queue directly: merges made by the handler itself must still be delivered (no serial queue re-drives the source)
for k in (0, 1, 2):
    HARNESSES += [SRC(x, k, extra=['-DROOTQ'], name_extra='_rootq') for x in ('m', 'mRm', 'mR^m', 'mR^mRm', 'mmR^mm', 'mR^mR^m')]
PRL = dict(HIST_PROBES); PRL.update({'OFF_ds_refs': 'offsetof(struct dispatch_source_s, ds_refs)', 'OFF_ds_pending_data': 'offsetof(struct dispatch_source_refs_s, ds_pending_data)', 'OFF_ds_data': 'offsetof(struct dispatch_source_refs_s, ds_data)'})
def LEM(kind, which):
    units = ENT + (['_dispatch_source_latch_and_call'] if which == 'LATCH' else [])
    return H('S_%s_%s' % (which.lower(), KN[kind]), '../C15/h_latch.c', units, stubs=STUBS + (['_dispatch_source_wakeup'] if which == 'MERGE' else []), noglobal=['_dispatch_queue_attrs', '_dispatch_mgr_q'], icall_only=ICALL, nt=3, heap=6144,
             defines=['-DKIND=%d' % kind, '-DH_' + which], probes=PRL, unwind=4, unwindset=HS.UNWINDSET, timeout=600, witness_any=True, mem_gb=16,
             note='real %s on a %s source from an arbitrary pending value with <=3 concurrent merges injected at its atomic accesses' % ('dispatch_source_merge_data' if which == 'MERGE' else '_dispatch_source_latch_and_call', KN[kind]))
HARNESSES += [LEM(k, w) for k in (0, 1, 2) for w in ('MERGE', 'LATCH')]
HARNESSES += [SRC(x, 0, tiers=('thorough',)) for x in ('mmmRm', 'mR^mmR^m', 'mRmRmR', 'SmrSmr', 'mmRSmrm')]
ASSUMPTIONS = ['custom data sources only (DATA_ADD / OR / REPLACE); kernel-backed source types (read/write/signal/proc: epoll back end) are outside',
               'one serial target queue; histories are sequential: a merge "during the handler" is issued from inside the handler on the same thread; merges racing the handler from other threads are covered by the tier-S lemmas S_latch_* (atomicity of the latch under interference)',
               'merged values in the histories are fixed distinct constants']
LEVEL_TEXT = "Tier S: real dispatch_source_merge_data and _dispatch_source_latch_and_call on a source created through the real API, from an arbitrary pending value, with up to three concurrent merges injected at the unit's own atomic accesses: nothing merged is lost or delivered twice (ADD sum, OR union, REPLACE membership), the handler never sees zero, every merge wakes the source with MAKE_DIRTY. Tier H: histories of merge / worker / suspend / resume / merge-from-the-handler on ADD, OR and REPLACE sources driven entirely through the real API on a serial target queue: sums/unions/last value at quiescence, no re-entry, nothing delivered while suspended. Histories also with the source targeting a global (overcommit) root queue directly, including merges made by the handler itself."
LEVEL_NOTE = "Custom data sources only (kernel-backed types are outside); histories are sequential with fixed distinct merge values (symbolic values make 'pending != 0' a symbolic branch: no verdict); concurrent merges are covered by the tier-S interference lemmas."
