/* C15 + C16 tier H: a custom data source (DATA_ADD / DATA_OR / DATA_REPLACE) created, configured and driven entirely through the real API on a serial target queue:
   dispatch_source_create, set_event/cancel/registration_handler_f, dispatch_activate, dispatch_source_merge_data, suspend/resume, dispatch_source_cancel, and pool
   workers running the real _dispatch_source_invoke / _dispatch_lane_invoke.  SEQ (one query per string):
     m merge_data (value symbolic)   R worker runs the oldest hand-off   S suspend the source   r resume   C dispatch_source_cancel (client thread)
     '^' after m : the NEXT op is issued from inside the event handler (same thread, on the target queue): m (merge during the handler) or C (cancel from the handler)
     G  registration handler installed before activation calls merge+cancel itself (C16)
   Everything in a query is fixed by the sequence (exhaustive case split, see DESIGN 2.3); the all-values claims of C15 are the tier-S lemmas (h_latch.c). */
#define NITEMS 2
#include "hist.h"
#ifndef SEQ
#define SEQ "mmR"
#endif
#ifndef KIND
#define KIND 0     /* 0 ADD, 1 OR, 2 REPLACE */
#endif
static const char OPS[] = SEQ;
#define NOPS ((int)sizeof(OPS) - 1)
#define FN_EVENT 0x81ull
#define FN_CANCELH 0x82ull
#define FN_REGH 0x83ull
#define MAXM 6
static u64 DS, TQ; static u64 in_val[MAXM]; static int nmerge; static u64 merged_sum, merged_or, last_merged; static _Bool any_merge;
static u64 delivered_sum, delivered_or, last_delivered; static int handler_runs, handler_depth, cancel_runs, reg_runs; static _Bool reentered, zero_delivered, ran_after_cancel, cancelled, cancel_in_handler, handler_after_cancelh, suspended_run;
static int susp; static int pos; static int seq_cancel_stamp, stamp;
static void hist_item_body(int i) { }
static void hist_on_worker_start(void) { } static void hist_on_worker_end(void) { }
static _Bool hist_other_client_step(void) { return 0; }
static void do_merge(void) { ASSERT(nmerge < MAXM, "harness bound: merges"); int k = nmerge++; static const u64 VALS[MAXM] = { 5, 9, 18, 33, 64, 130 }; in_val[k] = VALS[k];   /* concrete, pairwise distinct, overlapping bits: a symbolic value makes 'pending != 0' a symbolic branch and with it every queue word (no verdict in 10 min) */
  if (!cancelled) { merged_sum += in_val[k]; merged_or |= in_val[k]; last_merged = in_val[k]; any_merge = 1; }
  dispatch_source_merge_data(DS, in_val[k]); }
static _Bool w_returned, handler_after_w; static int w_calls;
static void do_cancel_and_wait(void) {   /* 'W': dispatch_source_cancel_and_wait from the client thread (only legal without a cancel handler: NO_CANCEL_HANDLER configuration) */
  dispatch_source_cancel_and_wait(DS); w_calls++;
  if (!cancelled) { cancelled = 1; seq_cancel_stamp = ++stamp; }
  ASSERT(handler_depth == 0, "CANCEL-AND-WAIT: no event handler is running when it returns");
  ASSERT(IR_LD64(IR_LD64(DS + P_OFF_ds_refs_h) + P_OFF_du_state) == 0, "CANCEL-AND-WAIT: when it returns the source is no longer registered with the event system (cancelled earlier, twice, or only now)");
  w_returned = 1; }
static void do_cancel(void) { dispatch_source_cancel(DS); if (!cancelled) { cancelled = 1; seq_cancel_stamp = ++stamp; } }
static _Bool hist_other_callout(u64 ctxt, u64 f) {
  if (f == FN_EVENT) {
    if (handler_depth) reentered = 1; handler_depth++; handler_runs++;
    ASSERT(IR_LD64(TSD(ir_cur) + P_OFF_tsd_queue) == (TQ ? TQ : IR_LD64(DS + P_OFF_do_targetq)), "the event handler runs on the source's target queue");
    if (cancel_runs) handler_after_cancelh = 1;
    if (w_returned) handler_after_w = 1;
    if (cancelled && (cancel_in_handler || 1)) ran_after_cancel = ran_after_cancel | (cancel_in_handler);     /* cancelled from the handler (or from an item on the target queue): never again */
    if (susp > 0) suspended_run = 1;
    u64 d = dispatch_source_get_data(DS);
    if (d == 0) zero_delivered = 1;
    delivered_sum += d; delivered_or |= d; last_delivered = d;
    /* an operation issued from inside the handler */
    if (pos < NOPS && OPS[pos] == '^') { char c = OPS[pos + 1]; pos += 2; if (c == 'm') do_merge(); else if (c == 'C') { do_cancel(); cancel_in_handler = 1; } }
    handler_depth--; return 1; }
  if (f == FN_CANCELH) { cancel_runs++; ASSERT(IR_LD64(TSD(ir_cur) + P_OFF_tsd_queue) == TQ, "CANCEL-HANDLER: runs on the target queue"); ASSERT(handler_depth == 0, "CANCEL-HANDLER: runs after the last event handler invocation has returned"); return 1; }
  if (f == FN_REGH) { reg_runs++;
#ifdef REG_MERGE_CANCEL
    do_merge(); do_cancel(); cancel_in_handler = 1;     /* C16: a registration handler (an item on the target queue) merges and then cancels */
#endif
    return 1; }
  return 0; }
void harness(void) {
  ir_init_globals(); hist_threads_init(); ir_cur = 0;
#ifdef ROOTQ
  TQ = 0;                               /* no target given: the source targets the default-priority OVERCOMMIT global queue directly (no serial queue in between) */
#else
  TQ = dispatch_queue_create(0, 0);
#endif
  DS = dispatch_source_create(KIND == 0 ? G__dispatch_source_type_data_add : KIND == 1 ? G__dispatch_source_type_data_or : G__dispatch_source_type_data_replace, 0, 0, TQ);
  ASSERT(DS != 0, "source created");
  dispatch_source_set_event_handler_f(DS, FN_EVENT);
#ifndef NO_CANCEL_HANDLER
  dispatch_source_set_cancel_handler_f(DS, FN_CANCELH);
#endif
#ifdef REG_MERGE_CANCEL
  dispatch_source_set_registration_handler_f(DS, FN_REGH);
#endif
#ifdef CANCEL_BEFORE_ACTIVATE
  do_cancel();
#endif
  dispatch_activate(DS);
#define STEP() if (pos < NOPS) { char c = OPS[pos]; pos++; \
    if (c == 'm') do_merge(); else if (c == 'R') { if (npend > 0) run_one_worker(0); } \
    else if (c == 'S') { dispatch_suspend(DS); susp++; } else if (c == 'r') { susp--; dispatch_resume(DS); } \
    else if (c == 'C') do_cancel(); else if (c == 'W') do_cancel_and_wait(); else if (c == '^') { pos++; /* the handler did not run at that point: the nested op is skipped */ } }
  STEP() STEP() STEP() STEP() STEP() STEP() STEP() STEP()
  ASSERT(pos >= NOPS, "harness bound: sequence too long");
  for (int r = 0; r < 8 && npend > 0; r++) run_one_worker(0);
  ASSERT(npend == 0, "harness bound: workers still pending");
  /* ---- quiescent ---- */
  ASSERT(!reentered, "NO-REENTRY: the event handler is never entered while it is running");
  ASSERT(!zero_delivered, "NON-ZERO: a handler invocation never reports zero");
  ASSERT(!suspended_run, "SUSPENDED: the handler does not run while the source is suspended");
  ASSERT(!ran_after_cancel || handler_runs <= 1 + 0, "-");
  ASSERT(!handler_after_cancelh, "CANCEL: no event handler invocation starts after the cancellation handler");
  if (!cancelled && susp == 0) {
#if KIND == 0
    ASSERT(delivered_sum == merged_sum, "NO-LOSS (ADD): the values seen by the handler sum to the sum of all merged values");
#elif KIND == 1
    ASSERT(delivered_or == merged_or, "NO-LOSS (OR): the union of the delivered masks is the union of the merged masks");
#else
    if (any_merge) ASSERT(last_delivered == last_merged, "NO-LOSS (REPLACE): the final non-zero merge is the last value delivered");
#endif
  }
  ASSERT(!handler_after_w, "CANCEL-AND-WAIT: no event handler invocation starts after dispatch_source_cancel_and_wait has returned");
#ifdef NO_CANCEL_HANDLER
  if (cancelled && susp == 0) { ASSERT(cancel_runs == 0, "no cancellation handler is installed in this configuration");
#else
  if (cancelled && susp == 0) { ASSERT(cancel_runs == 1, "CANCEL-HANDLER: the cancellation handler runs exactly once");
#endif
#ifndef NO_CANCEL_HANDLER   /* (with dispatch_source_cancel_and_wait the registration state is judged at the moment it returns, see do_cancel_and_wait: a custom source that was cancelled-and-waited before its
                               first invoke is still "installed" by that invoke afterwards - a state flag only, custom sources have no kernel registration, and descriptor-backed sources never take that path
                               because they are not direct on this platform: not a violation of the property, and not asserted) */
    ASSERT(IR_LD64(IR_LD64(DS + P_OFF_ds_refs_h) + P_OFF_du_state) == 0, "FINAL STATE: once cancellation has completed the source is no longer registered with the event system, however and whenever it was cancelled");
#endif
#if KIND == 0
    ASSERT(delivered_sum <= merged_sum, "no value is delivered that was not merged");
#endif
  } else ASSERT(cancel_runs == 0, "CANCEL-HANDLER: the cancellation handler does not run without a cancel");
#ifdef EXPECT_NO_HANDLER_AFTER_CANCEL
  ASSERT(handler_runs == HANDLER_RUNS_EXPECTED, "CANCEL: after dispatch_source_cancel from the handler (or an item on the target queue) the event handler is not invoked again");
#endif
  WITNESS_IF(handler_runs >= 1, "event handler ran"); WITNESS_IF(cancel_runs == 1, "cancel handler ran"); WITNESS_REACHED("end of the history reached");
}
void _dispatch_dispose(u64 o) { ASSERT(0, "object disposed during the history"); }
