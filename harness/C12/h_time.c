/* C12: dispatch_time / dispatch_walltime / _dispatch_timeout over the whole input space.
   Units under the solver: the real functions from src/time.c with the inline helpers of src/shims/time.h as compiled.
   Environment: clock_gettime returns, per clock id, one arbitrary instant in [CLK_MIN, 2^62) ns (fixed for the run, so that
   two calls can be compared). */
#include "hpre.h"
#include "model.c"
#include "hpost.h"
#define FOREVER (~0ull)
#define WALLNOW (~1ull)
#define MAXV ((1ull << 62) - 1)           /* DISPATCH_TIME_MAX_VALUE: values >= MAXV are not representable */
#define NSEC 1000000000ull
/* The instant is handed over as {tv_sec = CLK_SEC, tv_nsec = n}: the unit only ever uses tv_sec * 10^9 + tv_nsec, and with a constant tv_sec
   the 64x64 multiplier folds away (a symbolic tv_sec makes every query a multiplier-equivalence problem: no verdict in 100 s on any SAT back end).
   The timespec -> nanoseconds conversion with symbolic seconds is decided separately (harness walltime_ts, SMT back end). */
#ifndef CLK_SEC
#define CLK_SEC 0ull
#endif
static u64 in_clk_n[16]; static int clk_reads;
static u64 clk_now(u32 id) { return CLK_SEC * NSEC + in_clk_n[id]; }
static void clocks_init(void) {     /* the three clocks this platform reads: CLOCK_REALTIME 0, CLOCK_MONOTONIC 1, CLOCK_BOOTTIME 7 */
  SYM_AT(in_clk_n, 0); SYM_AT(in_clk_n, 1); SYM_AT(in_clk_n, 7);
  for (int i = 0; i < 16; i++) { ASSUME(in_clk_n[i] < (1ull << 62) - CLK_SEC * NSEC); if (i == 0 || i == 1 || i == 7) ASSUME(clk_now(i) >= 16); } }
u32 clock_gettime(u32 id, u64 ts) {
  ASSERT(id == 0 || id == 1 || id == 7, "clock_gettime on a clock the harness does not model");
  clk_reads++; IR_ST64(ts, CLK_SEC); IR_ST64(ts + 8, in_clk_n[id & 15]); return 0; }
void _dispatch_bug(u64 line, u64 v) { ASSERT(0, "_dispatch_bug reached"); }
u64 ir_dyn_alloca(u64 n) { ASSERT(0, "dynamic alloca"); return 0; }
enum { UP = 0, MONO = 1, WALL = 2 };
#define CLOCK_REALTIME 0
#define CLOCK_MONOTONIC 1
#define CLOCK_BOOTTIME 7
/* reference decoder written from the documented encoding (dispatch/time.h + the comment in shims/time.h) */
static int ref_clock(u64 t) { return (s64)t >= 0 ? UP : (t & (1ull << 62)) ? WALL : MONO; }
static u64 ref_value(u64 t) { int c = ref_clock(t); return c == UP ? t : c == WALL ? (u64)-t : (t & ~(1ull << 63)); }
static u64 ref_now(int c) { return clk_now(c == UP ? CLOCK_MONOTONIC : c == MONO ? CLOCK_BOOTTIME : CLOCK_REALTIME); }
/* smallest value that has an encoding which is neither a sentinel nor ambiguous: uptime 1, monotonic 1, wall 3 (-1 is FOREVER, -2 is WALLTIME_NOW) */
static u64 ref_min(int c) { return c == WALL ? 3 : 1; }
/* is r an already elapsed time on clock c (given that clocks are >= 16)?  */
static _Bool ref_elapsed_on(u64 r, int c) {
  if (r == FOREVER) return 0;
  if (ref_clock(r) != c) return 0;
  if (c == WALL && r == WALLNOW) return 1;        /* "now" on the wall clock: does not block */
  return ref_value(r) <= ref_now(c); }

static u64 in_base, in_delta, in_delta2, in_sec, in_nsec, in_null;

#ifdef H_TIME
void harness(void) {
  ir_init_globals(); clocks_init();
  SYM(in_base); SYM(in_delta); s64 delta = (s64)in_delta;
#ifdef NO_INT64_MIN
  ASSUME(delta != (s64)(1ull << 63));
#endif
  u64 r = dispatch_time(in_base, in_delta);
  if (in_base == FOREVER) { ASSERT(r == FOREVER, "FOREVER is absorbing"); WITNESS_REACHED("forever base"); return; }
  int c = ref_clock(in_base); u64 bv = ref_value(in_base);
  if (in_base == 0 || in_base == (1ull << 63) || in_base == WALLNOW) bv = ref_now(c);     /* the three NOW sentinels */
  if (bv > MAXV) { ASSERT(r == FOREVER, "a base outside the representable range is treated as FOREVER"); return; }
  __int128 sum = (__int128)bv + delta;
  if (sum >= (__int128)MAXV) { ASSERT(r == FOREVER, "sum beyond the representable future gives DISPATCH_TIME_FOREVER (no wrap-around)"); WITNESS_REACHED("overflow case"); return; }
  ASSERT(r != FOREVER, "DISPATCH_TIME_FOREVER is returned only when the sum is beyond the representable future");
  ASSERT(r == FOREVER || ref_clock(r) == c, "result is on the clock of the base");
  if (sum >= (__int128)ref_min(c)) {
    ASSERT(r == FOREVER || ref_value(r) == (u64)sum, "result is the base shifted by exactly delta nanoseconds");
    ASSERT(r != 0 && r != (1ull << 63), "a representable sum is never turned into a NOW sentinel");
    WITNESS_IF(c == WALL && delta < 0, "exact case, wall clock, negative delta");
    WITNESS_IF(c == MONO && delta > 0, "exact case, monotonic clock, positive delta");
    WITNESS_IF(in_base == 0, "exact case from DISPATCH_TIME_NOW");
  } else {
    ASSERT(ref_elapsed_on(r, c), "sum before the representable past gives an already elapsed time on the same clock");
    WITNESS_IF(c == WALL, "underflow case, wall clock");
    WITNESS_IF(c == UP, "underflow case, uptime clock");
  }
}
#endif

#ifdef H_MONO
/* a larger delta never yields an earlier time (same base, same clock readings) */
static u64 rank(u64 r, int c) { return r == FOREVER ? FOREVER : (c == WALL && r == WALLNOW) ? 2 : ref_value(r); }
void harness(void) {
  ir_init_globals(); clocks_init();
  SYM(in_base); SYM(in_delta); SYM(in_delta2);
  ASSUME((s64)in_delta <= (s64)in_delta2);
  u64 r1 = dispatch_time(in_base, in_delta), r2 = dispatch_time(in_base, in_delta2);
  int c = ref_clock(in_base);
  if (in_base == FOREVER) { ASSERT(r1 == FOREVER && r2 == FOREVER, "FOREVER is absorbing"); return; }
  ASSERT(r1 == FOREVER || r2 == FOREVER || ref_clock(r1) == ref_clock(r2), "both results on one clock");
  ASSERT(rank(r1, c) <= rank(r2, c), "a larger delta never yields an earlier time");
  WITNESS_IF(r1 != FOREVER && r2 == FOREVER, "first finite, second forever");
  WITNESS_IF(r1 != FOREVER && r2 != FOREVER && r1 != r2 && c == WALL, "two distinct finite wall times");
}
#endif

#ifdef H_WALL
void harness(void) {
  ir_init_globals(); clocks_init();
  SYM(in_null); SYM(in_sec); SYM(in_nsec); SYM(in_delta); s64 delta = (s64)in_delta;
  u64 ts = 0, bv;
  if (in_null & 1) bv = 0;
  else {
    /* caller-supplied timespec: a post-epoch instant whose nanosecond count fits in 63 bits (outside: see DESIGN) */
#ifdef TS_SYMBOLIC_SEC
    ASSUME(in_nsec < NSEC); ASSUME(in_sec < ((1ull << 63) / NSEC) - 1);
#else
    /* tv_sec constant, tv_nsec carries the whole instant: same value of tv_sec*10^9+tv_nsec, no symbolic multiplier */
    in_sec = TS_SEC; ASSUME(in_nsec < (1ull << 63) - TS_SEC * NSEC);
#endif
    ts = ir_bump(16); IR_ST64(ts, in_sec); IR_ST64(ts + 8, in_nsec); bv = in_sec * NSEC + in_nsec;
    ASSUME(bv >= TS_MIN);
  }
  u64 r = dispatch_walltime(ts, in_delta);
  if (in_null & 1) bv = ref_now(WALL);
  __int128 sum = (__int128)bv + delta;
  if (sum >= (__int128)MAXV) { ASSERT(r == FOREVER, "sum beyond the representable future gives DISPATCH_TIME_FOREVER (never a time on another clock)"); WITNESS_IF(!(in_null & 1), "overflow case from a timespec"); WITNESS_IF(in_null & 1, "overflow case from now"); return; }
  ASSERT(r != FOREVER, "DISPATCH_TIME_FOREVER is returned only when the sum is beyond the representable future");
  ASSERT(r == FOREVER || ref_clock(r) == WALL, "dispatch_walltime returns a wall-clock time");
  if (sum >= 3) { ASSERT(r == (u64)-(u64)sum, "result is the base shifted by exactly delta nanoseconds"); WITNESS_IF(delta < 0 && !(in_null & 1), "exact case, timespec, negative delta"); }
  else { ASSERT(ref_elapsed_on(r, WALL), "sum before the representable past gives an already elapsed wall time"); WITNESS_REACHED("underflow case"); }
}
#endif

#ifdef H_TIMEOUT
/* waiting until a time that is already past does not block: the relative timeout is 0; otherwise it is exactly the distance */
void harness(void) {
  ir_init_globals(); clocks_init();
  SYM(in_base);
  u64 r = _dispatch_timeout(in_base);
  if (in_base == FOREVER) { ASSERT(r == FOREVER, "timeout of FOREVER is FOREVER"); return; }
  int c = ref_clock(in_base); u64 v = ref_value(in_base);
  if (in_base == 0) { ASSERT(r == 0, "timeout of NOW is 0"); return; }
  if (in_base == WALLNOW) { ASSERT(r == 0, "timeout of WALLTIME_NOW is 0"); WITNESS_REACHED("walltime now"); return; }
  if (v > MAXV) return;     /* not a valid encoding: treated as FOREVER by the decoder, nothing claimed */
  u64 now = ref_now(c);
  if (v <= now) { ASSERT(r == 0, "a time that is already past has timeout 0 (does not block)"); WITNESS_IF(c == MONO, "past monotonic time"); }
  else { ASSERT(r == v - now, "a future time has timeout equal to its distance from now"); WITNESS_IF(c == WALL, "future wall time"); }
}
#endif

#ifdef H_DIFF
/* translator validation: print results for fixed vectors; the same vectors go through the real library (diff_real.c) */
#include "vectors.h"
void harness(void) {
  ir_init_globals();
  for (unsigned i = 0; i < sizeof(VEC_BASE) / sizeof(VEC_BASE[0]); i++) for (unsigned j = 0; j < sizeof(VEC_DELTA) / sizeof(VEC_DELTA[0]); j++)
    __builtin_printf("VEC time %llx %llx -> %llx\n", VEC_BASE[i], VEC_DELTA[j], dispatch_time(VEC_BASE[i], VEC_DELTA[j]));
  for (unsigned i = 0; i < sizeof(VEC_SEC) / sizeof(VEC_SEC[0]); i++) for (unsigned j = 0; j < sizeof(VEC_DELTA) / sizeof(VEC_DELTA[0]); j++) {
    static u64 ts; if (!ts) ts = ir_bump(16);
    IR_ST64(ts, VEC_SEC[i]); IR_ST64(ts + 8, VEC_NSEC[i]);
    __builtin_printf("VEC wall %llx %llx %llx -> %llx\n", VEC_SEC[i], VEC_NSEC[i], VEC_DELTA[j], dispatch_walltime(ts, VEC_DELTA[j])); }
}
#endif
