from vlib import H
ENTRIES = ['dispatch_time', 'dispatch_walltime', '_dispatch_timeout']
STUBS = ['clock_gettime', '_dispatch_bug']
def mk(name, define, note, extra=()):
    return H(name, 'h_time.c', ENTRIES, stubs=STUBS, nt=1, heap=256, defines=['-D' + define] + list(extra), note=note, timeout=300)
HARNESSES = [
    mk('time_exact', 'H_TIME', 'dispatch_time over all 2^64 bases x 2^64 deltas x symbolic clock readings: clock preserved, exact shift, FOREVER only on overflow, elapsed time on underflow'),
    mk('time_monotone', 'H_MONO', 'two calls with delta1 <= delta2 on the same base and clock readings: result order'),
    mk('walltime', 'H_WALL', 'dispatch_walltime(NULL | timespec, delta): every 63-bit instant (tv_sec fixed, tv_nsec carries the instant) and all deltas', ['-DTS_MIN=0', '-DTS_SEC=0ull']),
    mk('walltime_sec7', 'H_WALL', 'same with tv_sec = 7 (constant multiplier path)', ['-DTS_MIN=0', '-DTS_SEC=7ull']),
    mk('timeout', 'H_TIMEOUT', '_dispatch_timeout over all 2^64 times: past -> 0 (no blocking), future -> exact distance'),
]
ASSUMPTIONS = ['clock_gettime is a stub: per clock id one arbitrary instant in [16 ns, 2^62 ns), identical for repeated readings within a harness run',
               'dispatch_walltime timespec domain: 0 <= tv_nsec < 10^9, 0 <= tv_sec < 2^63/10^9 - 1 (pre-epoch and >292-year timespecs are outside the claim)',
               'no loops in the units; no unwinding bound needed']
import vlib
def validate(outdir):
    return vlib.diff_model_vs_real('C12', 'time_exact', 'h_time.c', '-DH_DIFF', 'diff_real.c', outdir)
LEVEL = 'model_checking'
LEVEL_TEXT = ('Bounded symbolic model checking of the real dispatch_time, dispatch_walltime and _dispatch_timeout (IR of src/time.c + shims/time.h): the SAT solver decides each oracle '
              'assertion for every 64-bit base, every 64-bit delta and every clock reading at once (no loops, so the bound is the input domain itself). The oracle is an independent '
              '128-bit reference of the documented encoding. Right level: the property is a pure input/output contract over 2^128 inputs of which the suite samples a handful.')
LEVEL_NOTE = ('Clock readings are stubbed (any instant in [16 ns, 2^62 ns), handed over with a constant tv_sec so that no symbolic multiplier arises); timespec domain is post-epoch and < 2^63 ns; '
              'IR comes from clang-14 while the shipped build uses clang-16; translator validated on every run against the real library on 513 fixed vectors.')
TECHNIQUE = 'SAT-based bounded model checking (cbmc) of clang IR translated to flat-memory C; differential oracle in 128-bit arithmetic'
