/* bases that do not read a clock (so that model and real library are comparable), incl. the bit-31 / bit-63 values of the test-suite */
static const unsigned long long VEC_BASE[] = { ~0ull, 1ull, 5ull, 0x7fffffffull, 0x80000000ull, 0x3ffffffffffffffeull, 0x3fffffffffffffffull, 0x4000000000000000ull, 0x7fffffffffffffffull,
  0x8000000000000001ull, 0x8000000080000000ull, 0xbfffffffffffffffull, 0xc000000000000000ull, 0xc000000000000001ull, (unsigned long long)-5ll, (unsigned long long)-3ll,
  (unsigned long long)-1700000000000000000ll, 0xfffffffffffffffdull };
static const unsigned long long VEC_DELTA[] = { 0, 1, 2, 4, 1000000000ull, 0x7fffffffull, 0x80000000ull, 0x3fffffffffffffffull, 0x4000000000000000ull, 0x7fffffffffffffffull, 0x8000000000000000ull,
  (unsigned long long)-1ll, (unsigned long long)-2ll, (unsigned long long)-3ll, (unsigned long long)-4ll, (unsigned long long)-5ll, (unsigned long long)-1000000000ll, 0xc000000000000000ull, 0x8000000000000001ull };
static const unsigned long long VEC_SEC[] = { 0, 0, 0, 1, 1700000000ull, 4611686018ull, 4611686019ull, 5000000000ull, 9223372035ull };
static const unsigned long long VEC_NSEC[] = { 0, 1, 3, 0, 999999999ull, 427387903ull, 0, 0, 0 };
