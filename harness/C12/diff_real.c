#include <dispatch/dispatch.h>
#include <stdio.h>
#include <time.h>
#include "vectors.h"
int main(void) {
  for (unsigned i = 0; i < sizeof(VEC_BASE) / sizeof(VEC_BASE[0]); i++) for (unsigned j = 0; j < sizeof(VEC_DELTA) / sizeof(VEC_DELTA[0]); j++)
    printf("VEC time %llx %llx -> %llx\n", VEC_BASE[i], VEC_DELTA[j], (unsigned long long)dispatch_time(VEC_BASE[i], (int64_t)VEC_DELTA[j]));
  for (unsigned i = 0; i < sizeof(VEC_SEC) / sizeof(VEC_SEC[0]); i++) for (unsigned j = 0; j < sizeof(VEC_DELTA) / sizeof(VEC_DELTA[0]); j++) {
    struct timespec ts = { (time_t)VEC_SEC[i], (long)VEC_NSEC[i] };
    printf("VEC wall %llx %llx %llx -> %llx\n", VEC_SEC[i], VEC_NSEC[i], VEC_DELTA[j], (unsigned long long)dispatch_walltime(&ts, (int64_t)VEC_DELTA[j])); }
  return 0; }
