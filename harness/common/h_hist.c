/* Tier H (shared by C01, C02, C03, C04, C05, C06, C17, C18): a bounded history of API calls on a small queue hierarchy, real code throughout.
   SEQ (compile-time string, one solver query per string; the driver enumerates the strings exhaustively up to the stated length):
     a async_f   b barrier_async_f   s sync_f   B barrier_sync_f   w async_and_wait_f   g group_async_f
     R  run one pending worker hand-off (which one: symbolic)
     S  dispatch_suspend   r dispatch_resume   A dispatch_activate      (C06)
     X  dispatch_release of the client's reference to the queue        (C17; only as last queue op)
     Z  dispatch_queue_set_width(queue, 3) on a concurrent queue (C04: the width bookkeeping of a drain in progress must follow the change)
     T  dispatch_set_target_queue(top queue, serial queue 1) on the ACTIVE top queue (INDEP configuration)   (C03)
   A letter may be followed by a digit naming the queue it addresses: 0 = top queue (default), 1 = its target queue (only with CHAIN), 2 = a sibling queue
   targeting the same bottom queue (only with FANIN).
   '~' after an item-submitting op means: the NEXT op is issued by the running item itself (same thread) from inside its body (C18: synchronous submission
       from within a work item).
   '^' after an item-submitting op means: the NEXT op is issued by client thread B from inside the body of that item, while it is running.
       If B has to block, B's path ends there (it would resume only after the item finished); everything B did before is checked.
   Configurations (defines):  QCONC top queue concurrent; CHAIN top queue targets a serial queue; FANIN second queue on the same bottom queue;
                              INACTIVE top queue created initially inactive; SETTARGET retarget through dispatch_set_target_queue instead of create_with_target;
                              CHAINCONC inner level concurrent, bottom serial; MAINQ (with CHAIN) the bottom is the real thread-bound main queue, drained by model thread 1 through the real _dispatch_main_queue_callback_4CF; BOTTOMCONC (with CHAIN) the top queue targets a custom concurrent queue.
   Symbolic per query: which pending hand-off a worker picks, (C06) pre-loaded suspend count. */
#include "hist.h"
#ifndef SEQ
#define SEQ "aasR"
#endif
static const char OPS[] = SEQ;
#define NOPS ((int)sizeof(OPS) - 1)
#define NQ 3
static u64 Q[NQ], rootq, grp; static int nq;
static _Bool q_conc[NQ];
static u64 in_pick[24], in_presuspend;
static int nsub, kind[NITEMS], item_qi[NITEMS], nested_op[NITEMS];   /* kind: the op letter that submitted item i; nested_op: index in OPS of the op run inside its body (or -1) */
static int suspend_cnt[NQ]; static _Bool inactive[NQ]; static _Bool started_while_blocked; static int domain_running; static _Bool domain_overlap, barrier_overlap;
static int cur_items[4], ncur; static _Bool released[NQ]; static int finalizer_runs; static u64 finalizer_ctxt; static int spec_destr_runs; static u64 spec_destr_ctxt;
static int freed_count(u64 p) { int n = 0; for (int i = 0; i < 16; i++) if (i < nfree && freed[i] == p) n++; return n; }
static _Bool is_sync(char c) { return c == 's' || c == 'B' || c == 'w'; }
static _Bool is_item(char c) { return c == 'a' || c == 'b' || c == 's' || c == 'B' || c == 'w' || c == 'g'; }
static _Bool is_barrier_item(int i) { return kind[i] == 'b' || kind[i] == 'B' || !q_conc[item_qi[i]] ; }
static void do_op(int s, int thread);
static int hist_pos; static _Bool retargeted;
static int self_op[NITEMS], item_parent[NITEMS]; static int assert_fail_calls; static _Bool expect_assert_fail;
#if defined(NATIVE_REPLAY) && defined(HIST_TRACE)
static void hdump(const char *w) { for (int k = 0; k < NQ; k++) if (k < nq) __builtin_printf("  [%s: queue %d state=%016llx tail=%llx head=%llx]\n", w, k, IR_LD64(Q[k] + P_OFF_dq_state), IR_LD64(Q[k] + P_OFF_items_tail), IR_LD64(Q[k] + P_OFF_items_head)); }
#define HDUMP(w) hdump(w)
#else
#define HDUMP(w) ((void)0)
#endif
static int op_q(int s) { char d = OPS[s + 1]; return (d >= '0' && d <= '2') ? d - '0' : 0; }
static int op_len(int s) { int n = 1; if (OPS[s + n] >= '0' && OPS[s + n] <= '2') n++; return n; }
#ifdef SERIAL_DOMAIN
#define DOMAIN_SERIAL 1     /* the bottom of the hierarchy is a serial queue: at most one item of the whole hierarchy runs at a time */
#else
#define DOMAIN_SERIAL 0
#endif
#ifdef IDENTITY
/* C18 identity: reference semantics written from the documentation.  chain(q) = q and the queues it targets (down to, not including, the root queue). */
#define KEY 0x5150ull
static _Bool targets[NQ][NQ];      /* targets[a][b]: b is on the target chain of a (a itself included) */
static int nextq[NQ] = { -1, -1, -1 };
static _Bool has_spec[NQ];
static _Bool member_of_item(int i, int k) {      /* is Q[k] on the chain of the queue item i was submitted to, or (synchronous submissions) of the submitting item's context */
  if (targets[item_qi[i]][k]) return 1;
  if (is_sync(kind[i]) && item_parent[i] >= 0) return member_of_item(item_parent[i], k);
  return 0; }
void _dispatch_assert_queue_fail(u64 dq, _Bool expected) { assert_fail_calls++;
  ASSERT(expect_assert_fail, "IDENTITY: dispatch_assert_queue rejected a queue of the item's chain (or dispatch_assert_queue_not rejected a queue outside it)");
  WITNESS_REACHED("the assertion API crashed as it must (path ends)"); ASSUME(0); }
static void identity_checks(int i) {
  int qi = item_qi[i];
  /* nearest queue on the chain (from the queue the item runs on, down its targets) that has the key */
  u64 want = 0; { int c = qi; for (int hop = 0; hop < NQ; hop++) if (c >= 0 && want == 0) { if (has_spec[c]) want = 0x1000ull + (u64)c; c = nextq[c]; } }
  ASSERT(dispatch_get_specific(KEY) == want, "SPECIFIC: dispatch_get_specific returns the value of the nearest queue in the chain that has the key, or NULL");
  for (int k = 0; k < NQ; k++) if (k < nq) { if (member_of_item(i, k)) dispatch_assert_queue(Q[k]); else dispatch_assert_queue_not(Q[k]); }
#ifdef NEGTEST
  if (i == NEGITEM) { expect_assert_fail = 1;
    if (member_of_item(i, NEGTEST)) dispatch_assert_queue_not(Q[NEGTEST]); else dispatch_assert_queue(Q[NEGTEST]);
    ASSERT(0, "IDENTITY: dispatch_assert_queue_not accepted a queue of the item's chain (or dispatch_assert_queue accepted a queue outside it)"); }
#endif
}
#endif
static void hist_item_body(int i) {
  int qi = item_qi[i];
  /* C06: nothing starts while its queue is suspended or inactive (the one committed item is only possible with a concurrent suspender, which a sequential history lacks) */
  if (suspend_cnt[qi] > 0 || inactive[qi]) started_while_blocked = 1;
  ASSERT(!(suspend_cnt[qi] > 0), "SUSPENDED: a work item starts while its queue is suspended");
  ASSERT(!inactive[qi], "INACTIVE: a work item starts before its queue was activated");
  /* exclusion */
  for (int k = 0; k < 4; k++) if (k < ncur) {
    int j = cur_items[k];
    if (DOMAIN_SERIAL) ASSERT(0, "HIERARCHY: two items of a hierarchy with a serial bottom queue run at the same time");
    if (item_qi[j] == qi) {
      ASSERT(q_conc[qi], "SERIAL: two items of one serial queue run at the same time");
      ASSERT(!(is_barrier_item(i) || is_barrier_item(j)), "BARRIER: a barrier item overlaps another item of its concurrent queue");
    }
  }
  /* LOCK-CHAIN (C03): an item of a queue that currently targets a serial queue of the hierarchy runs only on a thread that holds that queue's drain lock - whether the
     hierarchy was built at creation, before activation, or by dispatch_set_target_queue on the active queue (read from do_targetq at the moment the item starts) */
  { u64 tq = IR_LD64(Q[qi] + P_OFF_do_targetq);
    for (int k = 0; k < NQ; k++) if (k < nq && k != qi && tq == Q[k] && !q_conc[k])
      ASSERT((IR_LD64(Q[k] + P_OFF_dq_state) & P_OWNER_MASK) == ((u64)IR_LD32(TSD(ir_cur)) & P_OWNER_MASK), "HIERARCHY: an item of a queue that targets a serial queue runs on a thread that does not hold that serial queue's drain lock (nothing serialises it with the other items of the hierarchy)"); }
  ASSERT(ncur < 4, "harness bound: nesting depth"); cur_items[ncur++] = i;
#ifdef IDENTITY
  identity_checks(i);
#endif
  if (self_op[i] >= 0) { int k = self_op[i]; self_op[i] = -1; do_op(k, ir_cur); }
  if (nested_op[i] >= 0) { int k = nested_op[i]; nested_op[i] = -1; _Bool save = in_nested; in_nested = 1; do_op(k, 2); in_nested = save; }
  ncur--;
}
static void hist_on_worker_start(void) { } static void hist_on_worker_end(void) { }
#define FN_FINALIZER 0x78ull
#define FN_SPEC_DESTR 0x79ull
static _Bool hist_other_callout(u64 ctxt, u64 f) { if (f == FN_FINALIZER) { finalizer_runs++; finalizer_ctxt = ctxt; ASSERT(ncur == 0 || 1, "-"); return 1; }
  if (f == FN_SPEC_DESTR) { spec_destr_runs++; spec_destr_ctxt = ctxt; return 1; } return 0; }
static void do_op(int s, int thread) {
  char c = OPS[s]; int qi = op_q(s); u64 q = Q[qi]; int me = ir_cur; ir_cur = thread;
  ASSERT(qi < nq, "sequence addresses a queue this configuration does not have");
  if (is_item(c)) {
    ASSERT(nsub < NITEMS, "harness bound: too many items"); int i = nsub++; kind[i] = c; item_qi[i] = qi; sub_s[i] = ++seqno;
    nested_op[i] = (OPS[s + op_len(s)] == '^') ? s + op_len(s) + 1 : -1;
    self_op[i] = (OPS[s + op_len(s)] == '~') ? s + op_len(s) + 1 : -1;
    item_parent[i] = (ncur > 0 && thread == item_thread[cur_items[ncur - 1]]) ? cur_items[ncur - 1] : -1;     /* submitted from inside a running item by that item's own thread */
    if (c == 'a') dispatch_async_f(q, (u64)i, FN_ITEM);
    else if (c == 'b') dispatch_barrier_async_f(q, (u64)i, FN_ITEM);
    else if (c == 's') dispatch_sync_f(q, (u64)i, FN_ITEM);
    else if (c == 'B') dispatch_barrier_sync_f(q, (u64)i, FN_ITEM);
    else if (c == 'w') dispatch_async_and_wait_f(q, (u64)i, FN_ITEM);
    else if (c == 'g') { if (!grp) grp = dispatch_group_create(); dispatch_group_async_f(grp, q, (u64)i, FN_ITEM); }
    ret_s[i] = ++seqno;
    if (is_sync(c)) { ASSERT(runs[i] == 1, "SYNC-RETURN: a synchronous submission returned before (or without) its work item having run");
                      ASSERT(end_s[i] < ret_s[i] && start_s[i] > sub_s[i], "SYNC-RETURN: the item ran between the call and its return"); }
    else ASSERT(runs[i] == 0, "ASYNC: an asynchronous submission does not run the item before returning");
  } else if (c == 'S') { dispatch_suspend(q); suspend_cnt[qi]++; }
  else if (c == 'r') { ASSERT(suspend_cnt[qi] > 0, "sequence resumes a queue that is not suspended (driver must not generate this)"); suspend_cnt[qi]--; dispatch_resume(q); }
  else if (c == 'A') { inactive[qi] = 0; dispatch_activate(q); }
  else if (c == 'T') { ASSERT(nq == 3 && qi == 0, "retarget op needs the INDEP configuration"); dispatch_set_target_queue(Q[0], Q[1]); retargeted = 1; }   /* retarget the ACTIVE top queue onto the serial queue Q[1] */
#ifdef HAVE_SET_WIDTH
  else if (c == 'Z') { ASSERT(q_conc[qi], "set_width op needs a concurrent queue"); dispatch_queue_set_width(q, 3); }   /* change the width of the (possibly busy) concurrent queue: applied inline when idle, else by a queued barrier */
#endif
  else if (c == 'X') { ASSERT(!released[qi], "sequence releases a queue twice (driver must not generate this)"); released[qi] = 1; dispatch_release(q); }
  else ASSERT(0, "unknown op letter");
  ir_cur = me;
}

/* execute the next operation of the sequence on behalf of `thread` */
static _Bool hist_step(int thread) {
  if (hist_pos >= NOPS) return 0;
  int s = hist_pos; char c = OPS[s];
  if (c == 'R') { hist_pos = s + 1; if (npend > 0) run_one_worker(0); HDUMP("after worker"); }                 /* a worker takes the oldest pending hand-off */
  else if (c == 'L') { hist_pos = s + 1; if (npend > 0) run_one_worker(npend - 1); }    /* a worker takes the newest pending hand-off */
  else { int n = op_len(s); if (OPS[s + n] == '^' || OPS[s + n] == '~') { n++; n += op_len(s + n); }        /* a nested op is consumed by the item body */
         hist_pos = s + n; do_op(s, thread); HDUMP("after op"); }
  return 1;
}
/* a client thread sleeps: client thread 2 issues the next operation (a sleeping thread does not stop the others) */
static _Bool hist_other_client_step(void) { if (hist_pos >= NOPS) return 0; int me = ir_cur; _Bool r = hist_step(2); ir_cur = me; return r; }
static _Bool mk_top;
static u64 mkqueue(_Bool conc, _Bool inact, u64 target) {
  /* attribute = &_dispatch_queue_attrs[idx]; idx = (!concurrent) * 2 ... + inactive (see _dispatch_queue_attr_to_info); only address arithmetic is done on the table */
  u64 idx = (conc ? 0 : 1) * 2 + (inact ? 1 : 0);
#ifdef QOSATTR
  /* a client-chosen QoS class on the top queue: index = (((overcommit*AF + autorelease)*QOS_COUNT + qos)*PRIO_COUNT + (-relpri))*2 + !concurrent)*2 + inactive */
  if (target != 0 || mk_top) idx += (u64)QOSATTR * P_ATTR_PRIO_COUNT * 4;
#endif
  u64 attr = (conc || inact || idx > 3) ? IR_NOGLOBAL + idx * P_SZ_attr : 0;
  return target ? dispatch_queue_create_with_target(0, attr, target) : dispatch_queue_create(0, attr);
}
void harness(void) {
  ir_init_globals(); hist_threads_init(); ir_cur = 0;
  for (int i = 0; i < NITEMS; i++) nested_op[i] = -1;
  _Bool conc0 = 0, inact0 = 0;
#ifdef QCONC
  conc0 = 1;
#endif
#ifdef INACTIVE
  inact0 = 1;
#endif
#if defined(CHAIN) || defined(FANIN)
#ifdef MAINQ
  Q[1] = G__dispatch_main_q; q_conc[1] = 0; nq = 2;           /* the bottom of the hierarchy is the real, thread-bound main queue, bound to model thread 1 (as libdispatch_init does with _dispatch_queue_set_bound_thread) */
  IR_ST64(Q[1] + P_OFF_dq_state, IR_LD64(Q[1] + P_OFF_dq_state) | (u64)(IR_LD32(TSD(1)) & 0x3fffffffu));
#elif defined(BOTTOMCONC)
  Q[1] = mkqueue(1, 0, 0); q_conc[1] = 1; nq = 2;           /* the queue targeted by the top queue is a custom CONCURRENT queue (no serial domain) */
#else
  Q[1] = mkqueue(0, 0, 0); q_conc[1] = 0; nq = 2;           /* the serial bottom queue */
#endif
#ifdef SETTARGET
  mk_top = 1; Q[0] = mkqueue(conc0, 1, 0); mk_top = 0; dispatch_set_target_queue(Q[0], Q[1]); if (!inact0) dispatch_activate(Q[0]);   /* retarget while inactive, then activate */
#else
  mk_top = 1; Q[0] = mkqueue(conc0, inact0, Q[1]); mk_top = 0;
#endif
#ifdef FANIN
  Q[2] = mkqueue(0, 0, Q[1]); q_conc[2] = 0; nq = 3;
#endif
#elif defined(INDEP)
  Q[0] = mkqueue(conc0, inact0, 0); Q[2] = mkqueue(0, 0, 0); Q[1] = mkqueue(0, 0, 0); q_conc[1] = 0; q_conc[2] = 0; nq = 3;        /* three unrelated queues, each targeting a root queue */
#else
  Q[0] = mkqueue(conc0, inact0, 0); nq = 1;
#endif
#ifdef IDENTITY
  for (int k = 0; k < NQ; k++) targets[k][k] = 1;
#if defined(CHAIN) || defined(FANIN)
  targets[0][1] = 1; nextq[0] = 1;
#endif
#ifdef FANIN
  targets[2][1] = 1; nextq[2] = 1;
#endif
  for (int k = 0; k < NQ; k++) if (k < nq && ((SPECMASK >> k) & 1)) { has_spec[k] = 1; dispatch_queue_set_specific(Q[k], KEY, 0x1000ull + (u64)k, 0); }
#endif
  q_conc[0] = conc0; inactive[0] = inact0;
  rootq = IR_LD64(Q[nq > 1 ? 1 : 0] + P_OFF_do_targetq);
#ifdef PRESUSPEND
  /* C06: pre-load the inline suspend counter close to its overflow point so that the side counter is exercised by a short history */
  in_presuspend = PRESUSPEND;      /* concrete (case split by the driver: 61, 62, 63): a symbolic count makes every later word an if-then-else */
  IR_ST64(Q[0] + P_OFF_dq_state, IR_LD64(Q[0] + P_OFF_dq_state) + in_presuspend * 0x0400000000000000ull); suspend_cnt[0] = (int)in_presuspend;
  IR_ST32(Q[0] + P_OFF_ref, IR_LD32(Q[0] + P_OFF_ref) + 2);     /* a suspended queue holds +2 (see _dispatch_lane_suspend) */
#endif
#ifdef FINALIZER
  dispatch_set_context(Q[0], 0xBADull); dispatch_set_finalizer_f(Q[0], FN_FINALIZER); dispatch_set_context(Q[0], 0xC0FFEEull);   /* the finalizer gets the context current at that time */
#endif
#ifdef SPECIFIC
  dispatch_queue_set_specific(Q[0], 0x5150ull, 0xFEEDull, FN_SPEC_DESTR);
#endif
  /* the operation loop is written out (no loop construct): cbmc keeps every index constant */
  hist_step(0); hist_step(0); hist_step(0); hist_step(0); hist_step(0); hist_step(0); hist_step(0); hist_step(0);
  ASSERT(hist_pos >= NOPS, "harness bound: sequence longer than 8 operations");
  /* drain phase: workers run until nothing is pending */
  for (int r = 0; r < NITEMS + 4 && npend > 0; r++) run_one_worker(0);
  ASSERT(npend == 0, "harness bound: workers still pending after the drain phase");
  /* ---- quiescent point ---- */
  HDUMP("quiescent");
  for (int i = 0; i < NITEMS; i++) {
    ASSERT(runs[i] <= 1, "EXACTLY-ONCE: a work item is invoked twice");
    if (i < nsub) {
      int qi = item_qi[i]; _Bool blocked = suspend_cnt[qi] > 0 || inactive[qi] || (qi == 0 && nq > 1 && 0);
      if (!blocked && nested_op[i] < 0) ASSERT(runs[i] == 1, "STRANDED: at quiescence every item submitted to a runnable queue has run");
      if (blocked) ASSERT(runs[i] == 0 || end_s[i] < 0x7fffffff, "-");
    }
  }
  for (int i = 0; i < NITEMS; i++) for (int j = i + 1; j < NITEMS; j++) if (j < nsub && runs[i] && runs[j] && item_qi[i] == item_qi[j] && nested_op[i] < 0) {
    if (!q_conc[item_qi[i]]) ASSERT(end_s[i] < start_s[j], "FIFO: on a serial queue an item submitted earlier finishes before a later one starts");
    else if (kind[i] == 'b' || kind[i] == 'B' || kind[j] == 'b' || kind[j] == 'B') ASSERT(end_s[i] < start_s[j], "BARRIER ORDER: items submitted before a barrier finish before it starts; items submitted after it start after it ends");
  }
  for (int k = 0; k < NQ; k++) if (k < nq && !released[k]) {
    u64 st = IR_LD64(Q[k] + P_OFF_dq_state);
    ASSERT((st >> 58) + IR_LD32(Q[k] + P_OFF_side_cnt) == (u64)suspend_cnt[k], "COUNT: the queue's suspend count (inline + side) equals suspends minus resumes");
    ASSERT(((st & 0x0200000000000000ull) != 0) == (IR_LD32(Q[k] + P_OFF_side_cnt) > 0), "COUNT: side-count bit consistent with the side counter");
#ifdef MAINQ
    if (k == 1) { ASSERT((st & 0x3fffffffull) == (u64)(IR_LD32(TSD(1)) & 0x3fffffffu), "the thread-bound main queue stays owned by the thread it is bound to"); ASSERT(IR_LD64(Q[k] + P_OFF_items_tail) == 0, "quiescent main queue has an empty item list"); continue; }
#endif
    ASSERT((st & 0x3fffffffull) == 0, "quiescent queue has no drain owner");
    if (suspend_cnt[k] == 0 && !inactive[k]) ASSERT(IR_LD64(Q[k] + P_OFF_items_tail) == 0, "quiescent runnable queue has an empty item list");
    if (suspend_cnt[k] == 0 && !inactive[k]) ASSERT(((st >> 41) & 0x1fff) == 0x1000ull - (u64)IR_LD16(Q[k] + P_OFF_dq_width) && !(st & (0x0040000000000000ull | 0x0000010000000000ull)),
      "WIDTH: at quiescence the queue's width is entirely free again: no phantom reader, barrier or pending barrier is left in the state word (a leaked unit blocks every later barrier, an extra one lets a barrier overlap a reader)");
  }
#ifdef LIFETIME
  for (int k = 0; k < NQ; k++) if (k < nq) {
    _Bool referenced = !released[k] || (k == 1 && !released[0]) || (k == 1 && nq > 2 && !released[2]);    /* the client's reference, or a queue that targets it */
    if (referenced) ASSERT(freed_count(Q[k]) == 0, "LIFETIME: a queue is not deallocated while the client holds a reference or another queue targets it");
    else ASSERT(freed_count(Q[k]) == 1, "LIFETIME: after the last reference is dropped and pending work has finished the queue is deallocated exactly once");
  }
#ifdef FINALIZER
  if (released[0]) ASSERT(finalizer_runs == 1 && finalizer_ctxt == 0xC0FFEEull, "FINALIZER: the finalizer ran exactly once, with the context current at that time");
  else ASSERT(finalizer_runs == 0, "FINALIZER: the finalizer does not run while the client holds a reference");
  for (int i = 0; i < NITEMS; i++) if (i < nsub && item_qi[i] == 0 && released[0]) ASSERT(runs[i] == 1, "FINALIZER: every item submitted before the release ran");
#endif
#ifdef SPECIFIC
  if (released[0]) ASSERT(spec_destr_runs == 1 && spec_destr_ctxt == 0xFEEDull, "SPECIFIC: the queue-specific destructor ran exactly once with its value");
  else ASSERT(spec_destr_runs == 0, "SPECIFIC: the queue-specific destructor does not run while the queue is alive");
#endif
#endif
  WITNESS_REACHED("end of the history reached (every assertion above was evaluated)");
#ifdef WITNESS_EXTRA
  WITNESS_EXTRA;
#endif
}
#ifndef REAL_DISPOSE
void _dispatch_dispose(u64 o) { ASSERT(0, "LIFETIME: object disposed during a history in which the client still holds its reference"); }
void _dispatch_xref_dispose(u64 o) { ASSERT(0, "LIFETIME: xref dispose during a history in which the client still holds its reference"); }
#endif
#ifdef REAL_DISPOSE
void _dispatch_object_finalize(u64 o) { }
void _dispatch_introspection_queue_dispose(u64 o) { }
#endif
