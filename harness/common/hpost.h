/* included by every harness AFTER the generated model.c: allocator, object table, native main */
#ifndef HPOST_H
#define HPOST_H
#ifdef IR_WEAK_CAS_MAY_FAIL
#ifndef IR_SPURIOUS_MAX
#define IR_SPURIOUS_MAX 4
#endif
static unsigned char in_spurious[IR_SPURIOUS_MAX]; static int ir_nspurious;
static _Bool ir_spurious(void) { if (ir_nspurious >= IR_SPURIOUS_MAX) return 0; int k = ir_nspurious++; SYM_AT(in_spurious, k); return in_spurious[k] & 1; }
#endif
/* bump allocator over the model heap; with IR_CHECK_OBJECTS every object is registered (base,size,live) with a 16-byte red zone */
#ifndef IR_MAX_OBJ
#define IR_MAX_OBJ 48
#endif
static u64 ir_heap_next = IR_HEAP_BASE;
static u64 ir_obj_base[IR_MAX_OBJ], ir_obj_size[IR_MAX_OBJ]; static _Bool ir_obj_live[IR_MAX_OBJ]; static int ir_nobj;
static u64 ir_bump(u64 n) {
  u64 p = ir_heap_next; IR_ASSERT(n < IR_HEAP_SIZE, "model heap: allocation larger than the model heap");
#ifdef IR_BUMP_SLOT
  /* fixed-size slots: a symbolic allocation size must not make every later address symbolic */
  IR_ASSERT(n <= IR_BUMP_SLOT, "model heap: allocation larger than the slot size (harness bound too small)");
  ir_heap_next += IR_BUMP_SLOT + 16;
#else
  ir_heap_next += ((n + 15) & ~15ull) + 16;
#endif
  IR_ASSERT(ir_heap_next <= IR_MEM_END, "model heap exhausted (harness bound too small)");
  IR_ASSERT(ir_nobj < IR_MAX_OBJ, "model object table full (harness bound too small)");
  ir_obj_base[ir_nobj] = p; ir_obj_size[ir_nobj] = n; ir_obj_live[ir_nobj] = 1; ir_nobj++; return p; }
#ifdef IR_BUMP_SLOT
static int ir_obj_find(u64 p) { if (p < IR_HEAP_BASE) return -1; u64 k = (p - IR_HEAP_BASE) / (IR_BUMP_SLOT + 16ull); return (k < (u64)ir_nobj && k < IR_MAX_OBJ && ir_obj_base[k] == p) ? (int)k : -1; }
#else
static int ir_obj_find(u64 p) { for (int i = 0; i < IR_MAX_OBJ; i++) if (i < ir_nobj && ir_obj_base[i] == p) return i; return -1; }
#endif
static void ir_obj_free(u64 p) { int i = ir_obj_find(p); IR_ASSERT(i >= 0, "free of an address that is no allocated object"); if (i >= 0) { IR_ASSERT(ir_obj_live[i], "double free"); ir_obj_live[i] = 0; } }
#ifdef IR_CHECK_OBJECTS
void ir_check_access(u64 a, u64 n) {
#ifdef IR_BUMP_SLOT
  /* fixed-size slots: the object an address belongs to is found arithmetically (no search loop), and without a control-flow branch on the address
     (a symbolic address - a table lookup with a symbolic index - must not fork a path in path-wise exploration); globals, TLS and stack frames are not tracked */
  _Bool tracked = a >= IR_HEAP_BASE;
  u64 k = tracked ? (a - IR_HEAP_BASE) / (IR_BUMP_SLOT + 16ull) : 0; _Bool kin = (k < IR_MAX_OBJ) & (k < (u64)ir_nobj); u64 kk = kin ? k : 0;
  _Bool ok = !tracked | (kin & ir_obj_live[kk] & (a >= ir_obj_base[kk]) & (a + n <= ir_obj_base[kk] + ir_obj_size[kk]));
#else
  if (a < IR_HEAP_BASE) return;   /* globals, TLS and stack frames are not tracked */
  _Bool ok = 0;
  for (int i = 0; i < IR_MAX_OBJ; i++) if (i < ir_nobj && ir_obj_live[i] && a >= ir_obj_base[i] && a + n <= ir_obj_base[i] + ir_obj_size[i]) ok = 1;
#endif
  IR_ASSERT(ok, "heap access outside every live object (out of bounds or use after free)");
}
#endif
#ifdef NATIVE_REPLAY
void harness(void);
int main(void) { harness(); __builtin_printf(ir_native_fail ? "REPLAY: violation reproduced\n" : "REPLAY: no assertion failed\n"); return 0; }
unsigned long long nondet_u64(void) { return 0; }
#endif
#endif
