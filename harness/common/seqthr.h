/* tier Q: sequentialised model threads over the --seq translation (every translated function is resumable; a yield point sits before every
   atomic access and every call of a `blocking`/`visible` stub).  The harness-side scheduler below runs Q_ROUNDS rounds; in each round every
   unfinished thread, in index order, executes a solver-chosen number (0..Q_MAXB) of visible operations.  This covers every interleaving that
   needs at most Q_ROUNDS*threads context switches in that rotation (budget 0 = the thread is skipped in this round).
   A thread body is written with TH_BEGIN / TH_CALL(k, call) / TH_WAIT(k, cond) / TH_END and is re-entered until it finishes. */
#ifndef SEQTHR_H
#define SEQTHR_H
static int tpc[IR_NT]; static _Bool tdone[IR_NT];
#define TH_BEGIN switch (tpc[ir_cur]) { case 0:
#define TH_CALL(k, stmt) tpc[ir_cur] = k; case k: stmt; if (ir_yielded) return;
#define TH_WAIT(k, cond) tpc[ir_cur] = k; case k: if (!(cond)) { ir_yielded = 1; ir_blocked[ir_cur] = 1; return; }
#define TH_END } tdone[ir_cur] = 1;
#ifndef Q_MAXB
#define Q_MAXB 12
#endif
#ifndef Q_ROUNDS
#define Q_ROUNDS 3
#endif
#ifndef Q_NTHR
#define Q_NTHR 3
#endif
static unsigned char in_budget[Q_ROUNDS][Q_NTHR + 1];
static void q_thread(int t);          /* harness: run (or resume) model thread t (1..Q_NTHR) */
static void q_run_slice(int r, int t) {
  if (tdone[t]) return;
  SYM_AT2(in_budget, r, t); ASSUME(in_budget[r][t] <= Q_MAXB);
  ir_cur = t; ir_budget = in_budget[r][t]; ir_yielded = 0; ir_blocked[t] = 0;
  q_thread(t);
}
/* after the symbolic rounds: let every unfinished thread run on, one after the other, with a large concrete budget (Q_FINISH passes) - a deterministic tail that brings the
   schedule to its end; a thread that is still unfinished afterwards is genuinely blocked (its blocking call is not enabled although nobody else can run) */
#ifndef Q_FINISH
#define Q_FINISH 2
#endif
static void q_finish(void) {
  for (int p = 0; p < Q_FINISH; p++) for (int t = 1; t <= Q_NTHR; t++) if (!tdone[t]) { ir_cur = t; ir_budget = 64; ir_yielded = 0; ir_blocked[t] = 0; q_thread(t); }
  ir_cur = 0; }
#endif
