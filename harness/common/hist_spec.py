from vlib import H
from st_probes import HIST_PROBES
H_ENTRIES = ['dispatch_queue_create', 'dispatch_queue_create_with_target', 'dispatch_async_f', 'dispatch_barrier_async_f', 'dispatch_sync_f', 'dispatch_barrier_sync_f', 'dispatch_async_and_wait_f',
             'dispatch_group_create', 'dispatch_group_async_f', 'dispatch_set_target_queue', 'dispatch_suspend', 'dispatch_resume', 'dispatch_activate', 'dispatch_release',
             '_dispatch_lane_invoke', '_dispatch_continuation_pop', '__dispatch_tsd']
H_STUBS = ['_dispatch_calloc', 'calloc', 'malloc', 'free', '_os_object_alloc_realized', '_dispatch_continuation_alloc_cacheonly', '_dispatch_continuation_free_cacheonly',
           '_dispatch_continuation_alloc_from_heap', '_dispatch_continuation_free_to_heap', '_dispatch_bug', '_dispatch_unfair_lock_lock_slow', '_dispatch_unfair_lock_unlock_slow',
           'libdispatch_tsd_init', '_dispatch_introspection_queue_create', 'strdup', 'strlen', '_dispatch_mgr_queue_push', '_dispatch_mgr_queue_wakeup',
           '_dispatch_queue_wakeup_with_override_slow', '_dispatch_temporary_resource_shortage', '_dispatch_log', '_dispatch_root_queue_push', '_dispatch_futex_wait', '_dispatch_futex_wake',
           '_dispatch_client_callout']
H_ICALL = ['_dispatch_lane_push', '_dispatch_lane_concurrent_push', '_dispatch_lane_wakeup', '_dispatch_root_queue_push', '_dispatch_lane_invoke', '_dispatch_lane_activate',
           '_dispatch_async_and_wait_invoke', '_dispatch_root_queue_wakeup', '_dispatch_sync_function_invoke', '_dispatch_lane_invoke2', '_dispatch_async_redirect_invoke', '_dispatch_object_no_invoke', '_dispatch_object_no_activate']
UNWINDSET = ('hist_threads_init.0:13,hist_threads_init.1:4,harness.0:10,harness.1:10,harness.2:10,harness.3:10,harness.4:10,harness.5:10,harness.6:10,run_one_worker.0:9,'
             '_dispatch_futex_wait.0:9,_dispatch_runloop_queue_poke.0:10,_dispatch_main_queue_drain.0:8,hist_item_body.0:5,ir_obj_find.0:50,_dispatch_lane_drain.0:8,_dispatch_lane_drain.1:8,_dispatch_lane_drain.2:8,_dispatch_lane_drain_non_barriers.0:8')   # the drain loops: up to 6 queued items (longest thorough sequences) + 1
def HH(seq, conc=False, chain=False, bottomconc=False, mainq=False, fanin=False, indep=False, inactive=False, settarget=False, qos=0, extra=(), tiers=('quick', 'thorough'), timeout=600, stubs_extra=(), icall_extra=(), entries_extra=(), real_dispose=False, name_extra=''):
    d = ['-DSEQ="%s"' % seq] + (['-DQCONC'] if conc else []) + (['-DCHAIN', '-DSERIAL_DOMAIN'] if chain else []) + (['-DCHAIN', '-DBOTTOMCONC'] if bottomconc else []) + (['-DCHAIN', '-DSERIAL_DOMAIN', '-DMAINQ'] if mainq else []) + (['-DFANIN', '-DSERIAL_DOMAIN'] if fanin else []) + \
        (['-DINDEP'] if indep else []) + (['-DINACTIVE'] if inactive else []) + (['-DSETTARGET'] if settarget else []) + (['-DQOSATTR=%d' % qos] if qos else []) + list(extra)
    cfg = ('conc' if conc else 'serial') + ('_chain' if chain else '') + ('_onconc' if bottomconc else '') + ('_onmain' if mainq else '') + ('_fanin' if fanin else '') + ('_indep' if indep else '') + ('_inactive' if inactive else '') + ('_settarget' if settarget else '') + ('_qos%d' % qos if qos else '') + name_extra
    stubs = list(H_STUBS) + list(stubs_extra) + (['_dispatch_runloop_queue_poke', '_dispatch_thread_override_end', 'dispatch_once_f', '_dispatch_force_cache_cleanup'] if mainq else []) + ([] if real_dispose else ['_dispatch_dispose', '_dispatch_xref_dispose'])
    return H('H_%s_%s' % (cfg, seq.replace('^', 'n').replace('~', 'i')), '../common/h_hist.c', H_ENTRIES + list(entries_extra) + (['_dispatch_main_q', '_dispatch_main_queue_callback_4CF'] if mainq else []), stubs=stubs, noglobal=['_dispatch_queue_attrs', '_dispatch_mgr_q'], icall_only=H_ICALL + list(icall_extra) + (['_dispatch_main_queue_push', '_dispatch_main_queue_wakeup', '_dispatch_sync_thread_bound_invoke', '_dispatch_queue_no_activate', '_dispatch_lane_activate'] if mainq else []), nt=3, heap=4096,
             defines=d + (['-DREAL_DISPOSE'] if real_dispose else []), probes=HIST_PROBES, unwind=4, unwindset=UNWINDSET, timeout=timeout, tiers=tiers, weak_cas=False, mem_gb=16,
             note='history "%s" on a %s top queue%s%s%s' % (seq, 'concurrent' if conc else 'serial', ' targeting a serial queue' if chain else (' targeting a custom concurrent queue' if bottomconc else ''), ' (two queues fan-in on one serial queue)' if fanin else '', ' created inactive' if inactive else ''),
             symbolic=False, witness_any=True)
