"""sequence enumeration for tier H (exhaustive within the stated alphabet and length; normalised to drop no-op placements of R)"""
import itertools
def seqs(alphabet, maxlen, minlen=1, need=None, filt=None):
    out = []
    for n in range(minlen, maxlen + 1):
        for t in itertools.product(alphabet, repeat=n):
            s = ''.join(t)
            if s.startswith('R') or s.endswith('R') or 'RR' in s: continue      # R with nothing pending / before the final drain / twice in a row adds nothing
            if need and not any(c in s for c in need): continue
            if filt and not filt(s): continue
            out.append(s)
    return out
def balanced_suspend(s, start=0):
    """resume only when suspended (per top queue)"""
    d = start
    for c in s:
        if c == 'S': d += 1
        elif c == 'r':
            if d == 0: return False
            d -= 1
    return True
