/* tier S support: one real state-machine function, all 2^64 state words, bounded interference from other threads.
   Include order in a harness:   #include "st.h"  (this pulls hpre.h, model.c, hpost.h)   then the lemma.
   The harness must define, before including st.h:  ST_VALID(s)  - the envelope every injected (interfering) state satisfies.  */
#ifndef ST_H
#define ST_H
#include "hpre.h"
/* --- dq_state layout, written down from the documentation block in queue_internal.h ("dq_state demystified"); NOT taken from the headers under test --- */
#define SUSPEND_INTERVAL 0x0400000000000000ull
#define HAS_SIDE_SUSPEND 0x0200000000000000ull
#define INACTIVE         0x0100000000000000ull
#define NEEDS_ACTIVATION 0x0080000000000000ull
#define SUSPEND_BITS     0xff80000000000000ull
#define IN_BARRIER       0x0040000000000000ull
#define FULL_BIT         0x0020000000000000ull
#define WIDTH_INTERVAL   0x0000020000000000ull
#define WIDTH_MASK       0x003ffe0000000000ull
#define WIDTH_SHIFT      41
#define WIDTH_FULL       0x1000ull
#define PENDING_BARRIER  0x0000010000000000ull
#define DIRTY            0x0000008000000000ull
#define ENQUEUED_ON_MGR  0x0000004000000000ull
#define ROLE_MASK        0x0000003000000000ull
#define ROLE_BASE_WLH    0x0000002000000000ull
#define ROLE_BASE_ANON   0x0000001000000000ull
#define RECEIVED_OVERRIDE 0x0000000800000000ull
#define MAX_QOS_MASK     0x0000000700000000ull
#define MAX_QOS_SHIFT    32
#define ENQUEUED         0x0000000080000000ull
#define SYNC_TRANSFER    0x0000000040000000ull
#define OWNER_MASK       0x000000003fffffffull
#define PRESERVED_BITS   (ENQUEUED_ON_MGR | ENQUEUED | ROLE_MASK | MAX_QOS_MASK)
#define UNLOCK_MASK      (OWNER_MASK | RECEIVED_OVERRIDE | SYNC_TRANSFER)
#define INIT_STATE(w)    ((WIDTH_FULL - (u64)(w)) << WIDTH_SHIFT)
#define WFIELD(s)        (((s) & WIDTH_MASK) >> WIDTH_SHIFT)          /* 13 bits, includes FULL_BIT */
#define IS_SUSPENDED(s)  ((s) >= NEEDS_ACTIVATION)
#define OWNER(s)         ((s) & OWNER_MASK)
#define QOS(s)           (((s) & MAX_QOS_MASK) >> MAX_QOS_SHIFT)
/* --- interference: before each atomic access to the state word another thread may have replaced it (bounded, recorded for replay) --- */
#ifndef ST_MAX_INTERFERE
#define ST_MAX_INTERFERE 2
#endif
static void st_pre(unsigned long long a);
static void st_seen(unsigned long long a, unsigned long long v);
#define IR_ALOAD_DONE(a, v, o) st_seen(a, v)
#define IR_CAS_FAIL(a, old, o) st_seen(a, old)
static void st_cas_ok(unsigned long long a, unsigned long long old, unsigned long long nw);
static void st_rmw_done(unsigned long long a, unsigned long long old);
#define IR_CAS_PRE(a, o) st_pre(a)
#define IR_RMW_PRE(a, o) st_pre(a)
#define IR_CAS_OK(a, old, nw, o) st_cas_ok(a, old, nw)
#define IR_RMW_DONE(a, old, o) st_rmw_done(a, old)
#include "model.c"
#include "hpost.h"
#include "probe.h"
#define DQ   IR_HEAP_BASE                 /* the queue object lives at a constant address */
#define TQ   (IR_HEAP_BASE + 256)         /* its target queue (only its address is used) */
#define ST_ADDR (DQ + P_OFF_dq_state)
#define TID  0x104u
#define TSD0 TLS___dispatch_tsd(0)
static u64 in_interfere[ST_MAX_INTERFERE], in_do_interfere[ST_MAX_INTERFERE]; static int st_ninterfere;
static u64 st_last_old, st_last_new; static int st_ntrans;      /* last successful atomic update of the state word (the linearisation point) */
static _Bool st_interfere_on;
static _Bool st_valid(u64 s);
#ifndef ST_VALID_STEP
#define ST_VALID_STEP(prev, nw) 1      /* what other threads may do to the word in one step, beyond st_valid(nw) */
#endif
static u64 st_last_seen; static int st_nseen;     /* the value most recently read from the state word by the unit (atomic load or failed CAS) */
static void st_seen(unsigned long long a, unsigned long long v) { if (a == ST_ADDR) { st_last_seen = v; st_nseen++; } }
static void st_pre(unsigned long long a) {
  if (a != ST_ADDR || !st_interfere_on) return;
  if (st_ninterfere < ST_MAX_INTERFERE) { int k = st_ninterfere++; SYM_AT(in_do_interfere, k); SYM_AT(in_interfere, k);
    if (in_do_interfere[k] & 1) { u64 prev = IR_LD64(ST_ADDR); ASSUME(st_valid(in_interfere[k])); ASSUME(ST_VALID_STEP(prev, in_interfere[k])); IR_ST64(ST_ADDR, in_interfere[k]); } } }
static void st_cas_ok(unsigned long long a, unsigned long long old, unsigned long long nw) { if (a == ST_ADDR) { st_last_old = old; st_last_new = nw; st_ntrans++; } }
static void st_rmw_done(unsigned long long a, unsigned long long old) { if (a == ST_ADDR) { st_last_old = old; st_last_new = IR_LD64(ST_ADDR); st_ntrans++; } }
/* layout drift guard: the hard-coded constants above must still be the ones the sources use (a mismatch makes the check 'broken', not a violation) */
static void st_layout_guard(void) {
  ASSERT(P_DIRTY == DIRTY && P_ENQUEUED == ENQUEUED && P_IN_BARRIER == IN_BARRIER && P_FULL_BIT == FULL_BIT && P_PENDING_BARRIER == PENDING_BARRIER &&
         P_WIDTH_INTERVAL == WIDTH_INTERVAL && P_SUSPEND_INTERVAL == SUSPEND_INTERVAL && P_OWNER_MASK == OWNER_MASK && P_ENQUEUED_ON_MGR == ENQUEUED_ON_MGR &&
         P_ROLE_MASK == ROLE_MASK && P_MAX_QOS_MASK == MAX_QOS_MASK && P_INACTIVE == INACTIVE && P_NEEDS_ACTIVATION == NEEDS_ACTIVATION && P_SYNC_TRANSFER == SYNC_TRANSFER,
         "layout guard: a dq_state bit moved; the harness constants must be updated (check broken, not a property violation)"); }
static u64 in_state, in_width;
/* queue object with symbolic state and width; thread 0 has tid TID */
static void st_setup(void) {
  ir_init_globals(); st_layout_guard();
  ir_heap_next = IR_HEAP_BASE + 512;
  IR_ST32(TSD0, TID);
  SYM(in_state); SYM(in_width);
  ASSUME(in_width >= 1 && in_width <= 0xffe);
  IR_ST64(ST_ADDR, in_state); IR_ST16(DQ + P_OFF_dq_width, (u16)in_width); IR_ST64(DQ + P_OFF_do_targetq, TQ);
}
u64 ir_dyn_alloca(u64 n) { ASSERT(0, "dynamic alloca"); return 0; }
void libdispatch_tsd_init(void) { ASSERT(0, "tsd not initialised by harness"); }
#endif
