ST_PROBES = {
 'OFF_dq_state': 'offsetof(struct dispatch_lane_s, dq_state)', 'OFF_dq_width': 'offsetof(struct dispatch_lane_s, dq_width)', 'OFF_do_targetq': 'offsetof(struct dispatch_lane_s, do_targetq)',
 'OFF_items_tail': 'offsetof(struct dispatch_lane_s, dq_items_tail)', 'OFF_items_head': 'offsetof(struct dispatch_lane_s, dq_items_head)', 'SZ_lane': 'sizeof(struct dispatch_lane_s)',
 'OFF_sidelock': 'offsetof(struct dispatch_lane_s, dq_sidelock)', 'OFF_side_cnt': 'offsetof(struct dispatch_lane_s, dq_side_suspend_cnt)', 'OFF_ref': 'offsetof(struct dispatch_lane_s, do_ref_cnt)',
 'OFF_xref': 'offsetof(struct dispatch_lane_s, do_xref_cnt)', 'OFF_flags': 'offsetof(struct dispatch_lane_s, dq_atomic_flags)', 'OFF_vtable': 'offsetof(struct dispatch_lane_s, do_vtable)',
 'OFF_do_next': 'offsetof(struct dispatch_lane_s, do_next)', 'OFF_priority': 'offsetof(struct dispatch_lane_s, dq_priority)', 'OFF_label': 'offsetof(struct dispatch_lane_s, dq_label)',
 'OFF_do_ctxt': 'offsetof(struct dispatch_lane_s, do_ctxt)', 'OFF_do_finalizer': 'offsetof(struct dispatch_lane_s, do_finalizer)', 'OFF_serialnum': 'offsetof(struct dispatch_lane_s, dq_serialnum)',
 'DIRTY': 'DISPATCH_QUEUE_DIRTY', 'ENQUEUED': 'DISPATCH_QUEUE_ENQUEUED', 'IN_BARRIER': 'DISPATCH_QUEUE_IN_BARRIER', 'FULL_BIT': 'DISPATCH_QUEUE_WIDTH_FULL_BIT',
 'PENDING_BARRIER': 'DISPATCH_QUEUE_PENDING_BARRIER', 'WIDTH_INTERVAL': 'DISPATCH_QUEUE_WIDTH_INTERVAL', 'SUSPEND_INTERVAL': 'DISPATCH_QUEUE_SUSPEND_INTERVAL',
 'OWNER_MASK': 'DISPATCH_QUEUE_DRAIN_OWNER_MASK', 'ENQUEUED_ON_MGR': 'DISPATCH_QUEUE_ENQUEUED_ON_MGR', 'ROLE_MASK': 'DISPATCH_QUEUE_ROLE_MASK', 'MAX_QOS_MASK': 'DISPATCH_QUEUE_MAX_QOS_MASK',
 'INACTIVE': 'DISPATCH_QUEUE_INACTIVE', 'NEEDS_ACTIVATION': 'DISPATCH_QUEUE_NEEDS_ACTIVATION', 'SYNC_TRANSFER': 'DISPATCH_QUEUE_SYNC_TRANSFER',
 'SZ_cont': 'sizeof(struct dispatch_continuation_s)', 'OFF_dc_flags': 'offsetof(struct dispatch_continuation_s, dc_flags)', 'OFF_dc_func': 'offsetof(struct dispatch_continuation_s, dc_func)',
 'OFF_dc_ctxt': 'offsetof(struct dispatch_continuation_s, dc_ctxt)', 'OFF_dc_data': 'offsetof(struct dispatch_continuation_s, dc_data)', 'OFF_dc_next': 'offsetof(struct dispatch_continuation_s, do_next)',
 'OFF_dc_priority': 'offsetof(struct dispatch_continuation_s, dc_priority)', 'OFF_dc_voucher': 'offsetof(struct dispatch_continuation_s, dc_voucher)',
 'WAKEUP_CONSUME_2': 'DISPATCH_WAKEUP_CONSUME_2', 'WAKEUP_MAKE_DIRTY': 'DISPATCH_WAKEUP_MAKE_DIRTY', 'WAKEUP_BARRIER_COMPLETE': 'DISPATCH_WAKEUP_BARRIER_COMPLETE',
 'INVOKE_STEALING': 'DISPATCH_INVOKE_STEALING', 'INVOKE_MANAGER_DRAIN': 'DISPATCH_INVOKE_MANAGER_DRAIN',
}
HIST_PROBES = dict(ST_PROBES)
HIST_PROBES.update({
 'OFF_tsd_queue': 'offsetof(struct dispatch_tsd, dispatch_queue_key)', 'OFF_tsd_frame': 'offsetof(struct dispatch_tsd, dispatch_frame_key)', 'OFF_tsd_basepri': 'offsetof(struct dispatch_tsd, dispatch_basepri_key)',
 'OFF_tsd_context': 'offsetof(struct dispatch_tsd, dispatch_context_key)', 'OFF_tsd_deferred': 'offsetof(struct dispatch_tsd, dispatch_deferred_items_key)', 'OFF_tsd_wlh': 'offsetof(struct dispatch_tsd, dispatch_wlh_key)',
 'ATTR_PRIO_COUNT': 'DISPATCH_QUEUE_ATTR_PRIO_COUNT', 'ATTR_QOS_COUNT': 'DISPATCH_QUEUE_ATTR_QOS_COUNT', 'SZ_dic': 'sizeof(struct dispatch_invoke_context_s)', 'INVOKE_WORKER_FLAGS': 'DISPATCH_INVOKE_WORKER_DRAIN | DISPATCH_INVOKE_REDIRECTING_DRAIN', 'SZ_attr': 'sizeof(struct dispatch_queue_attr_s)',
 'OFF_ds_refs_h': 'offsetof(struct dispatch_source_s, ds_refs)', 'OFF_du_state': 'offsetof(struct dispatch_source_refs_s, du_state)',
 'SZ_vtable': 'sizeof(struct dispatch_lane_vtable_s)', 'OFF_vt_wakeup': 'offsetof(struct dispatch_lane_vtable_s, _os_obj_vtable.dq_wakeup)', 'OFF_vt_push': 'offsetof(struct dispatch_lane_vtable_s, _os_obj_vtable.dq_push)',
})
