/* included by every harness BEFORE the generated model.c */
#ifndef HPRE_H
#define HPRE_H
#ifdef NATIVE_REPLAY
#include <stdio.h>
#include <stdlib.h>
#include <string.h>
#define __CPROVER_assert(c, m) do { if (!(c)) { printf("ASSERT FAIL: %s\n", m); ir_native_fail = 1; } } while (0)
#define __CPROVER_assume(c) do { if (!(c)) { printf("ASSUME FALSE (%s:%d): replayed inputs leave the assumed envelope\n", __FILE__, __LINE__); exit(3); } } while (0)
#define __CPROVER_atomic_begin() ((void)0)
#define __CPROVER_atomic_end() ((void)0)
static int ir_native_fail;
#ifdef REPLAY_VALUES
#include REPLAY_VALUES
#else
static const struct { const char *n; long i, j; unsigned long long v; } IR_RV[] = { { 0, 0, 0, 0 } };
#endif
static unsigned long long ir_replay_val(const char *n, long i, long j) {
  if (strncmp(n, "in_", 3)) { const char *p = strstr(n, "in_"); if (p) n = p; }
  char base[96]; size_t k = 0; while (n[k] && n[k] != '[' && n[k] != ' ' && k < 95) { base[k] = n[k]; k++; } base[k] = 0;
  for (int r = 0; IR_RV[r].n; r++) if (!strcmp(IR_RV[r].n, base) && IR_RV[r].i == i && IR_RV[r].j == j) return IR_RV[r].v;
  return 0; }
#define SYM(v)        ((v) = (__typeof__(v))ir_replay_val(#v, -1, -1))
#define SYM_AT(a, i)  ((a)[i] = (__typeof__((a)[i]))ir_replay_val(#a, (long)(i), -1))
#define SYM_AT2(a, i, j)  ((a)[i][j] = (__typeof__((a)[i][j]))ir_replay_val(#a, (long)(i), (long)(j)))
#else
unsigned long long nondet_u64(void);
#define SYM(v)        ((v) = (__typeof__(v))nondet_u64())
#define SYM_AT(a, i)  ((a)[i] = (__typeof__((a)[i]))nondet_u64())
#define SYM_AT2(a, i, j)  ((a)[i][j] = (__typeof__((a)[i][j]))nondet_u64())
#endif
#define ASSERT(c, m) __CPROVER_assert(c, m)
#define ASSUME(c) __CPROVER_assume(c)
#ifdef WITNESS
#define WITNESS_REACHED(m) __CPROVER_assert(0, "witness: " m)
#define WITNESS_IF(c, m) __CPROVER_assert(!(c), "witness: " m)
#else
#define WITNESS_REACHED(m) ((void)0)
#define WITNESS_IF(c, m) ((void)0)
#endif
/* spurious failure of weak compare-and-swap: decided by the solver, recorded for replay */
#ifdef IR_WEAK_CAS_MAY_FAIL
#define IR_SPURIOUS(weak) ((weak) && ir_spurious())
static _Bool ir_spurious(void);
#endif
#endif
