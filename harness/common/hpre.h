/* included by every harness BEFORE the generated model.c */
#ifndef HPRE_H
#define HPRE_H
#ifdef NATIVE_REPLAY
#define __CPROVER_assert(c, m) do { if (!(c)) { __builtin_printf("ASSERT FAIL: %s\n", m); ir_native_fail = 1; } } while (0)
#define __CPROVER_assume(c) do { if (!(c)) { __builtin_printf("ASSUME FALSE (%s:%d): replayed inputs leave the assumed envelope\n", __FILE__, __LINE__); __builtin_exit(3); } } while (0)
#define __CPROVER_atomic_begin() ((void)0)
#define __CPROVER_atomic_end() ((void)0)
static int ir_native_fail;
#ifdef REPLAY_VALUES
#include REPLAY_VALUES
#else
static const struct { const char *n; long i, j; unsigned long long v; } IR_RV[] = { { 0, 0, 0, 0 } };
#endif
static unsigned long long ir_replay_val(const char *n, long i, long j) {
  if (__builtin_strncmp(n, "in_", 3)) { const char *p = __builtin_strstr(n, "in_"); if (p) n = p; }
  char base[96]; unsigned long k = 0; while (n[k] && n[k] != '[' && n[k] != ' ' && k < 95) { base[k] = n[k]; k++; } base[k] = 0;
  for (int r = 0; IR_RV[r].n; r++) if (!__builtin_strcmp(IR_RV[r].n, base) && IR_RV[r].i == i && IR_RV[r].j == j) return IR_RV[r].v;
  return 0; }
#define SYM(v)        ((v) = (__typeof__(v))ir_replay_val(#v, -1, -1))
#define SYM_AT(a, i)  ((a)[i] = (__typeof__((a)[i]))ir_replay_val(#a, (long)(i), -1))
#define SYM_AT2(a, i, j)  ((a)[i][j] = (__typeof__((a)[i][j]))ir_replay_val(#a, (long)(i), (long)(j)))
#else
unsigned long long nondet_u64(void);
#define SYM(v)        ((v) = (__typeof__(v))nondet_u64())
#define SYM_AT(a, i)  ((a)[i] = (__typeof__((a)[i]))nondet_u64())
#define SYM_AT2(a, i, j)  ((a)[i][j] = (__typeof__((a)[i][j]))nondet_u64())
#endif
#ifdef NATIVE_REPLAY
/* the model defines its own versions of libc entry points (as environment stubs); natively they must not replace the C library's */
#define malloc irn_malloc
#define calloc irn_calloc
#define realloc irn_realloc
#define free irn_free
#define strlen irn_strlen
#define strdup irn_strdup
#define memcmp irn_memcmp
#define strcmp irn_strcmp
#define strncmp irn_strncmp
#define strchr irn_strchr
#define memchr irn_memchr
#define syscall irn_syscall
#define clock_gettime irn_clock_gettime
#define sched_yield irn_sched_yield
#define read irn_read
#define write irn_write
#define close irn_close
#define open irn_open
#define pipe irn_pipe
#define fcntl irn_fcntl
#define fstat irn_fstat
#define lseek irn_lseek
#define pread irn_pread
#define pwrite irn_pwrite
#define sem_init irn_sem_init
#define sem_post irn_sem_post
#define sem_wait irn_sem_wait
#define sem_timedwait irn_sem_timedwait
#define sem_destroy irn_sem_destroy
#define sem_trywait irn_sem_trywait
#define pthread_create irn_pthread_create
#define pthread_self irn_pthread_self
#define pthread_key_create irn_pthread_key_create
#define pthread_setspecific irn_pthread_setspecific
#define pthread_getspecific irn_pthread_getspecific
#define pthread_attr_init irn_pthread_attr_init
#define pthread_attr_destroy irn_pthread_attr_destroy
#define pthread_attr_setdetachstate irn_pthread_attr_setdetachstate
#define pthread_sigmask irn_pthread_sigmask
#define pthread_detach irn_pthread_detach
#define getpid irn_getpid
#define gettid irn_gettid
#define usleep irn_usleep
#define nanosleep irn_nanosleep
#define abort irn_abort
#define getenv irn_getenv
#define sysconf irn_sysconf
#define epoll_create1 irn_epoll_create1
#define epoll_ctl irn_epoll_ctl
#define epoll_wait irn_epoll_wait
#define eventfd irn_eventfd
#define timerfd_create irn_timerfd_create
#define timerfd_settime irn_timerfd_settime
#define sscanf irn_sscanf
#define snprintf irn_snprintf
#define vsnprintf irn_vsnprintf
#define strlcpy irn_strlcpy
#define strtoul irn_strtoul
#define dlsym irn_dlsym
#define mmap irn_mmap
#define munmap irn_munmap
#define madvise irn_madvise
#define posix_memalign irn_posix_memalign
#define raise irn_raise
#define kill irn_kill
#define sigemptyset irn_sigemptyset
#define sigaddset irn_sigaddset
#define sigfillset irn_sigfillset
#define sigdelset irn_sigdelset
#define qsort irn_qsort
#define getprogname irn_getprogname
#define fprintf irn_fprintf
#define dprintf irn_dprintf
#define vfprintf irn_vfprintf
#endif
#define ASSERT(c, m) __CPROVER_assert(c, m)
#define ASSUME(c) __CPROVER_assume(c)
#ifdef WITNESS
#define WITNESS_REACHED(m) __CPROVER_assert(0, "witness: " m)
#define WITNESS_IF(c, m) __CPROVER_assert(!(c), "witness: " m)
#else
#define WITNESS_REACHED(m) ((void)0)
#define WITNESS_IF(c, m) ((void)0)
#endif
/* spurious failure of weak compare-and-swap: decided by the solver, recorded for replay */
#ifdef IR_WEAK_CAS_MAY_FAIL
#define IR_SPURIOUS(weak) ((weak) && ir_spurious())
static _Bool ir_spurious(void);
#endif
#endif
