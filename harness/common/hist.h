/* tier H: bounded API histories on the real queue code.  The SEQUENCE of operation kinds is a compile-time string (one solver query per sequence, the
   split is exhaustive within the bound and done by the driver); operation parameters, environment answers and spurious CAS failures are symbolic.
   Model threads:  0 = client thread A,  1 = pool worker,  2 = client thread B (used for operations issued while an item of A is running).
   Worker threads are run inline: when the calling thread would block (futex wait) or when the sequence says 'R', one pending hand-off to the
   root queue is executed by thread 1 with the real _dispatch_lane_invoke / _dispatch_continuation_pop.  */
#ifndef HIST_H
#define HIST_H
#include "hpre.h"
#include "model.c"
#ifdef LIFETIME
#define IR_BUMP_SLOT 256
#define IR_MAX_OBJ 40
#endif
#include "hpost.h"
#include "probe.h"
#define TSD(t) TLS___dispatch_tsd(t)
#ifndef NITEMS
#define NITEMS 4
#endif
#ifndef NCONT
#define NCONT 12
#endif
/* ---- environment: allocation ---- */
u64 _dispatch_calloc(u64 n, u64 sz) { return ir_bump(n * sz); }
u64 calloc(u64 n, u64 sz) { return ir_bump(n * sz); }
u64 malloc(u64 n) { return ir_bump(n); }
static int nfree; static u64 freed[16];
void free(u64 p) { if (p == 0) return; ir_obj_free(p); if (nfree < 16) freed[nfree++] = p; }
u64 _os_object_alloc_realized(u64 cls, u64 size) { u64 p = ir_bump(size); IR_ST64(p, cls); return p; }
/* continuations come from a fixed pool in allocation order (constant addresses); the per-thread cache is bypassed */
static u64 cont_pool[NCONT]; static int cont_next;
u64 _dispatch_continuation_alloc_cacheonly(void) { return 0; }
u64 _dispatch_continuation_free_cacheonly(u64 dc) { return dc; }
u64 _dispatch_continuation_alloc_from_heap(void) { ASSERT(cont_next < NCONT, "harness bound: continuation pool exhausted"); return cont_pool[cont_next++]; }
void _dispatch_continuation_free_to_heap(u64 c) { }
/* ---- environment: things that must not happen in these scenarios ---- */
void _dispatch_bug(u64 l, u64 v) { ASSERT(0, "_dispatch_bug reached"); }
void _dispatch_unfair_lock_lock_slow(u64 l, u32 f) { ASSERT(0, "unfair lock contended in a sequential history"); }
void _dispatch_unfair_lock_unlock_slow(u64 l, u32 f) { ASSERT(0, "unfair lock contended in a sequential history"); }
void libdispatch_tsd_init(void) { ASSERT(0, "tsd not initialised by harness"); }
u64 _dispatch_introspection_queue_create(u64 q) { return q; }
u64 strdup(u64 s) { return s; }  u64 strlen(u64 s) { return 0; }
u64 ir_dyn_alloca(u64 n) { ASSERT(0, "dynamic alloca"); return 0; }
void _dispatch_mgr_queue_push(u64 a, u64 b, u32 c) { ASSERT(0, "manager queue push"); }
void _dispatch_mgr_queue_wakeup(u64 a, u32 b, u32 c) { ASSERT(0, "manager queue wakeup"); }
void _dispatch_queue_wakeup_with_override_slow(u64 a, u64 b, u32 c) { }
void _dispatch_temporary_resource_shortage(void) { ASSERT(0, "resource shortage"); }
void _dispatch_log(u64 a, ...) { }
/* ---- the root queue: pushes are recorded; a worker (model thread 1) executes them when the harness says so ---- */
#define MAXPEND 8
static u64 pend_obj[MAXPEND], pend_rq[MAXPEND]; static int npend;
static int handoffs_total;
#if defined(NATIVE_REPLAY) && defined(HIST_TRACE)
#define HTRACE(...) __builtin_printf(__VA_ARGS__)
#else
#define HTRACE(...) ((void)0)
#endif
void _dispatch_root_queue_push(u64 rq, u64 o, u32 qos) { HTRACE("  [root push obj=%llx rq=%llx thread=%d]\n", o, rq, ir_cur); ASSERT(npend < MAXPEND, "harness bound: too many hand-offs outstanding"); pend_rq[npend] = rq; pend_obj[npend] = o; npend++; handoffs_total++; }
static u64 hist_dic[3];
static int hist_depth;
static void hist_on_worker_start(void); static void hist_on_worker_end(void);
static _Bool hist_is_queue(u64 o) { u64 vt = IR_LD64(o); return vt > 0x1000; }   /* continuations carry flags (small integers, DC_FLAG_*) in their first word, objects a vtable address */
#ifdef MAINQ
/* the thread-bound main queue: a wake-up pokes the main thread's run loop (recorded as a pending hand-off, at most one outstanding); "the worker" for it is the main thread
   (model thread 1, the thread the queue is bound to) running the real _dispatch_main_queue_callback_4CF */
#define MAINQ_MARK 0x4d41494eull
void _dispatch_runloop_queue_poke(u64 dq, u32 qos, u32 flags) { ASSERT(dq == G__dispatch_main_q, "run-loop poke of the main queue");
  for (int i = 0; i < MAXPEND; i++) if (i < npend && pend_obj[i] == MAINQ_MARK) return;
  ASSERT(npend < MAXPEND, "harness bound: too many hand-offs outstanding"); pend_rq[npend] = 0; pend_obj[npend] = MAINQ_MARK; npend++; handoffs_total++; }
void _dispatch_thread_override_end(u32 owner, u64 res) { }
void dispatch_once_f(u64 pred, u64 ctxt, u64 f) { }        /* the run-loop handle of the main queue (an eventfd) is not modelled: the poke stub stands for it */
void _dispatch_force_cache_cleanup(void) { }
#endif
static void run_one_worker(int which) {
  ASSERT(which >= 0 && which < npend, "worker index");
  u64 o = pend_obj[which], rq = pend_rq[which];
  for (int i = which; i + 1 < MAXPEND; i++) { pend_obj[i] = pend_obj[i + 1]; pend_rq[i] = pend_rq[i + 1]; }
  npend--;
#ifdef MAINQ
  if (o == MAINQ_MARK) { int me0 = ir_cur; ir_cur = 1; hist_depth++; ASSERT(hist_depth < 6, "harness bound: worker recursion depth");
    u64 sq = IR_LD64(TSD(1) + P_OFF_tsd_queue), sf = IR_LD64(TSD(1) + P_OFF_tsd_frame); IR_ST64(TSD(1) + P_OFF_tsd_queue, 0); IR_ST64(TSD(1) + P_OFF_tsd_frame, 0);
    _dispatch_main_queue_callback_4CF(0);
    IR_ST64(TSD(1) + P_OFF_tsd_queue, sq); IR_ST64(TSD(1) + P_OFF_tsd_frame, sf); hist_depth--; ir_cur = me0; return; }
#endif
  HTRACE("  [worker runs obj=%llx]\n", o); int me = ir_cur; ir_cur = 1; hist_depth++; ASSERT(hist_depth < 6, "harness bound: worker recursion depth");
  u64 save_q = IR_LD64(TSD(1) + P_OFF_tsd_queue), save_f = IR_LD64(TSD(1) + P_OFF_tsd_frame);
  IR_ST64(TSD(1) + P_OFF_tsd_queue, rq); IR_ST64(TSD(1) + P_OFF_tsd_frame, 0);
  hist_on_worker_start();
  _dispatch_continuation_pop(o, hist_dic[1], P_INVOKE_WORKER_FLAGS, rq);   /* what _dispatch_root_queue_drain does with a popped object: queues and redirections go through their vtable, plain continuations are called out */
  hist_on_worker_end();
  IR_ST64(TSD(1) + P_OFF_tsd_queue, save_q); IR_ST64(TSD(1) + P_OFF_tsd_frame, save_f);
  hist_depth--; ir_cur = me;
}
/* ---- blocking: a thread that would sleep lets the worker run until it is woken; if nothing can run, that is a lost wake-up ---- */
static int blocked_forever; static _Bool in_nested;
static _Bool hist_other_client_step(void);   /* harness specific: let another client thread issue the next operation of the sequence; 0 if there is none */
u32 _dispatch_futex_wait(u64 addr, u32 val, u64 timeout, u32 flags) {
  if (in_nested && ir_cur == 2 && IR_LD32(addr) == val) { WITNESS_REACHED("the nested client thread had to sleep (its path ends here)"); ASSUME(0); }   /* client thread B, issued from inside a running item, sleeps: it resumes only after that item; its path ends here */
  /* the calling thread sleeps: pool workers run the outstanding hand-offs (oldest first); when none is left, another client thread issues the next operation
     of the sequence; if nobody can make progress the sleeper is stranded */
  for (int i = 0; i < MAXPEND + 4 && IR_LD32(addr) == val; i++) {
    if (npend > 0) run_one_worker(0);
    else if (!hist_other_client_step()) { blocked_forever = 1; ASSERT(0, "STRANDED: a thread sleeps although no worker hand-off is outstanding and no other thread has anything left to do (lost wake-up)"); ASSUME(0); }
  }
  ASSERT(IR_LD32(addr) != val, "STRANDED: a sleeping thread is not woken although every outstanding hand-off has run");
  return 0; }
static int futex_wakes;
void _dispatch_futex_wake(u64 addr, u32 n, u32 flags) { futex_wakes++; }
/* ---- work items ---- */
static int runs[NITEMS], seqno, start_s[NITEMS], end_s[NITEMS], sub_s[NITEMS], ret_s[NITEMS], running_now, overlap, item_thread[NITEMS]; static u64 item_q[NITEMS];
static _Bool hist_other_callout(u64 ctxt, u64 f);   /* harness specific: callouts that are not work items (finalizers, ...) */
static void hist_item_body(int i);      /* harness specific: what an item does while it runs (may issue nested operations) */
#define FN_ITEM 0x77ull                 /* the work function: a token; the callout stub is the "user code" */
static int nspurious_callouts;
void _dispatch_client_callout(u64 ctxt, u64 f) {
  if (f != FN_ITEM) { if (!hist_other_callout(ctxt, f)) IR_CALL_V_U64(f, ctxt);   /* a library-internal function run through the callout (e.g. _dispatch_async_and_wait_invoke): the real one; unknown tokens fault */
                      return; }
  int i = (int)ctxt; ASSERT(i >= 0 && i < NITEMS, "work item context");
  if (i < 0 || i >= NITEMS) return;
  HTRACE("  [item %d runs on thread %d]\n", i, ir_cur); runs[i]++; item_thread[i] = ir_cur; item_q[i] = IR_LD64(TSD(ir_cur) + P_OFF_tsd_queue);
  start_s[i] = ++seqno; running_now++;
  hist_item_body(i);
  running_now--; end_s[i] = ++seqno; }
static void hist_threads_init(void) {
  IR_ST32(TSD(0), 0x100); IR_ST32(TSD(1), 0x104); IR_ST32(TSD(2), 0x108);
  for (int i = 0; i < NCONT; i++) cont_pool[i] = ir_bump(P_SZ_cont);
  for (int t = 0; t < 3; t++) hist_dic[t] = ir_bump(P_SZ_dic);
}
#endif
