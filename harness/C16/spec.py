import sys, os, importlib.util
sys.path.insert(0, os.path.join(os.path.dirname(__file__), '..', 'common'))
from vlib import H
spec = importlib.util.spec_from_file_location('spec_C15_shared', os.path.join(os.path.dirname(__file__), '..', 'C15', 'spec.py')); c15 = importlib.util.module_from_spec(spec); spec.loader.exec_module(c15)
SRC = c15.SRC
HARNESSES = []
# cancel issued by a client thread, at every point of the life cycle; cancel twice; cancel before activation; cancel from the event handler; cancel from the registration handler
for k in (0, 2):
    HARNESSES += [SRC(x, k) for x in ('C', 'CC', 'mC', 'mRC', 'mCR', 'mCm', 'CmR', 'mRCmR', 'mCC', 'mRCR', 'SCr', 'SmCr', 'mSCrR')]
    HARNESSES += [SRC(x, k, extra=['-DEXPECT_NO_HANDLER_AFTER_CANCEL', '-DHANDLER_RUNS_EXPECTED=1'], name_extra='_hc') for x in ('mR^C', 'mR^Cm', 'mR^CmR', 'mmR^CRm', 'mR^CC')]
    HARNESSES += [SRC(x, k, extra=['-DCANCEL_BEFORE_ACTIVATE'], name_extra='_cba') for x in ('R', 'm', 'mR', 'C', 'mC')]
    HARNESSES += [SRC(x, k, extra=['-DREG_MERGE_CANCEL', '-DEXPECT_NO_HANDLER_AFTER_CANCEL', '-DHANDLER_RUNS_EXPECTED=0'], name_extra='_reg') for x in ('R', 'mR', 'RmR')]
    # dispatch_source_cancel_and_wait (no cancel handler installed: the library forbids combining the two): alone, after an asynchronous cancel still in flight, twice, with events pending / delivered, before activation
    HARNESSES += [SRC(x, k, extra=['-DNO_CANCEL_HANDLER'], name_extra='_caw') for x in ('W', 'CW', 'mW', 'mCW', 'mRW', 'mCRW', 'WW', 'WC', 'WmR', 'CWmR', 'mRCWm')]
    HARNESSES += [SRC(x, k, extra=['-DNO_CANCEL_HANDLER', '-DCANCEL_BEFORE_ACTIVATE'], name_extra='_caw_cba') for x in ('W', 'WmR')]
HARNESSES += [SRC(x, 0, tiers=('thorough',)) for x in ('mRmCmR', 'mCRmCR', 'SmCmrR', 'mRmR^CmRm')]
ASSUMPTIONS = c15.ASSUMPTIONS + ['source types: custom data sources only; timer, read, write and signal sources (manager thread, epoll registration order) are outside this check',
   'dispatch_source_cancel_and_wait: only from the client thread, without a cancel handler (the combination is a documented client crash), never while the source is suspended (documented crash)']
LEVEL_TEXT = 'Tier H on data sources driven through the real API: cancel from a client thread at every point of the life cycle, twice, before activation, from the event handler and from a registration handler that merges and cancels: the cancel handler runs exactly once, on the target queue, after the last event handler returned; no event handler starts after it; after a cancel issued from the handler / an item on the target queue the event handler is not invoked again.'
LEVEL_NOTE = 'Custom data sources only: timer/read/write/signal sources, the manager thread, and epoll registration order are NOT covered.'
