/* C19: dispatch block objects.  The block object is CONSTRUCTED by the harness (a Block_layout whose invoke is the library's special invoke marker, followed by the
   private data record with its real private group) - dispatch_block_create itself (block.cpp, BlocksRuntime copy helpers) is outside, see DESIGN.  Everything that
   operates on the object is real: _dispatch_block_invoke_direct / _sync_invoke / _async_invoke, dispatch_block_cancel / testcancel / wait / notify, and the group
   functions behind wait and notify.  SEQ (one query per string):
     i direct invocation   s synchronous-submission invoke   a asynchronous-submission invoke (as drained from a queue)
     c cancel   t testcancel   w wait(FOREVER allowed to sleep: must not be needed)   p wait(DISPATCH_TIME_NOW)   W timed wait during which another thread cancels and which then times out
     n notify  */
#include "hpre.h"
#include "model.c"
#include "hpost.h"
#include "probe.h"
#ifndef SEQ
#define SEQ "ip"
#endif
static const char OPS[] = SEQ;
#define NOPS ((int)sizeof(OPS) - 1)
u64 _dispatch_calloc(u64 n, u64 sz) { return ir_bump(n * sz); }
u64 calloc(u64 n, u64 sz) { return ir_bump(n * sz); } u64 malloc(u64 n) { return ir_bump(n); } void free(u64 p) { }
u64 _os_object_alloc_realized(u64 cls, u64 size) { u64 p = ir_bump(size); IR_ST64(p, cls); return p; }
void _dispatch_bug(u64 l, u64 v) { ASSERT(0, "_dispatch_bug"); }
u64 ir_dyn_alloca(u64 n) { ASSERT(0, "dynamic alloca"); return 0; }
void libdispatch_tsd_init(void) { }
static u64 errno_cell; u64 __errno_location(void) { if (!errno_cell) errno_cell = ir_bump(8); return errno_cell; }
u64 _Block_copy(u64 b) { return b; } void _Block_release(u64 b) { }
u64 _dispatch_continuation_alloc_cacheonly(void) { return 0; } u64 _dispatch_continuation_alloc_from_heap(void) { return ir_bump(P_SZ_cont); }
u64 _dispatch_continuation_free_cacheonly(u64 dc) { return dc; } void _dispatch_continuation_free_to_heap(u64 c) { }
u64 _dispatch_wait_for_enqueuer(u64 p) { return IR_LD64(p); }
u32 _dispatch_queue_override_qos(u64 q, u32 qos) { return qos; }
u64 _dispatch_introspection_queue_create(u64 q) { return q; }
void _dispatch_temporary_resource_shortage(void) { ASSERT(0, "resource shortage"); }
u32 clock_gettime(u32 id, u64 ts) { IR_ST64(ts, 100); IR_ST64(ts + 8, 0); return 0; }
static u64 B, DBPD, INNER, GRP, NQ_; static int bodies, pushes, sleeps, wakes; static _Bool cancel_during_wait;
void vp_body(u64 blk) { bodies++; }
void _dispatch_client_callout(u64 ctxt, u64 f) { if (f == FN_vp_body) vp_body(ctxt); else ASSERT(0, "unexpected callout"); }
void _dispatch_lane_push(u64 q, u64 dc, u32 qos) { pushes++; }
void _dispatch_wake_by_address(u64 a) { wakes++; }
#define ETIMEDOUT 110
u32 _dispatch_wait_on_address(u64 addr, u32 val, u64 timeout, u32 flags) {
  sleeps++;
  ASSERT(timeout != ~0ull, "WAIT: a wait without timeout had to sleep although nothing else can complete the block in this history (it would hang)");
  if (cancel_during_wait) dispatch_block_cancel(B);        /* another thread cancels while the waiter sleeps */
  return ETIMEDOUT; }
static _Bool completed(void) { return IR_LD32(DBPD + P_OFF_dbpd_performed) >= 1; }
void harness(void) {
  ir_init_globals(); ir_heap_next = IR_HEAP_BASE; IR_ST32(TLS___dispatch_tsd(0), 0x104);
  INNER = ir_bump(P_SZ_block_layout); IR_ST64(INNER + P_OFF_block_invoke, FN_vp_body);
  B = ir_bump(P_SZ_block_layout + P_SZ_dbpd); DBPD = B + P_SZ_block_layout;
  IR_ST64(G__dispatch_block_special_invoke, 0xB10C0ull); IR_ST64(B + P_OFF_block_invoke, 0xB10C0ull);    /* the marker invoke pointer that identifies block objects with private data (defined in block.cpp) */
  GRP = _dispatch_group_create_and_enter();
  IR_ST64(DBPD + P_OFF_dbpd_magic, P_DBPD_MAGIC); IR_ST64(DBPD + P_OFF_dbpd_block, INNER); IR_ST64(DBPD + P_OFF_dbpd_group, GRP);
  NQ_ = ir_bump(128); { u64 vt = ir_bump(P_SZ_vtable); IR_ST64(NQ_ + P_OFF_vtable, vt); IR_ST64(vt + P_OFF_vt_push, FN__dispatch_lane_push); IR_ST32(NQ_ + P_OFF_ref, 9); }
  int executions = 0, expected_bodies = 0, nnotify = 0; _Bool cancelled = 0, waited_ok = 0;
  for (int s = 0; s < NOPS; s++) {
    char c = OPS[s];
    if (c == 'i' || c == 's' || c == 'a') {
      _Bool was_cancelled = cancelled; int b0 = bodies;
      if (c == 'i') _dispatch_block_invoke_direct(DBPD); else if (c == 's') _dispatch_block_sync_invoke(B); else _dispatch_block_async_invoke(B);
      executions++;
      ASSERT(bodies - b0 == (was_cancelled ? 0 : 1), "BODY: an execution runs the body exactly once, and not at all if the block object was cancelled before it started");
      ASSERT(completed(), "COMPLETION: the first execution (or skipped execution) completes the block object for waiters and notifiers");
    } else if (c == 'c') { dispatch_block_cancel(B); cancelled = 1; }
    else if (c == 't') { ASSERT((dispatch_block_testcancel(B) != 0) == cancelled, "TESTCANCEL: reports the cancellation from the moment of the cancel on, and only then"); }
    else if (c == 'w' || c == 'p' || c == 'W') {
      cancel_during_wait = (c == 'W'); int s0 = sleeps;
      u64 r = dispatch_block_wait(B, c == 'w' ? ~0ull : c == 'p' ? 0ull : 5000ull);
      if (cancel_during_wait && sleeps > s0) cancelled = 1;
      cancel_during_wait = 0;
      if (executions >= 1) { ASSERT(r == 0, "WAIT: after the first execution has completed, wait returns zero"); waited_ok = 1; }
      else ASSERT(r != 0, "WAIT: wait returns zero only after the first execution (or skipped execution) completed");
      if (r != 0) ASSERT(c != 'w' && (c == 'p' || sleeps > s0), "WAIT: non-zero only after the full timeout (a poll, or the kernel reported the timeout)");
    } else if (c == 'n') {
      int p0 = pushes; u64 nb = ir_bump(P_SZ_block_layout); IR_ST64(nb + P_OFF_block_invoke, FN_vp_body);
      dispatch_block_notify(B, NQ_, nb); nnotify++;
      if (executions >= 1) ASSERT(pushes == p0 + 1, "NOTIFY: a notification registered after completion is submitted at once, exactly once");
      else ASSERT(pushes == p0, "NOTIFY: a notification is not submitted before the first execution completed");
    }
    if (executions == 0) ASSERT(pushes == 0, "NOTIFY: nothing is submitted before completion");
    else ASSERT(pushes == nnotify, "NOTIFY: every registered notification has been submitted exactly once after completion");
    ASSERT((dispatch_block_testcancel(B) != 0) == cancelled, "TESTCANCEL: monotone - once cancelled, always reported (a wait that times out does not erase a concurrent cancel)");
  }
  WITNESS_IF(executions >= 1 && nnotify >= 1, "executed and notified"); WITNESS_REACHED("end of the history reached");
}
void _dispatch_dispose(u64 o) { ASSERT(0, "disposed"); }
void _dispatch_xref_dispose(u64 o) { ASSERT(0, "xref disposed"); }
