import sys, os, itertools
sys.path.insert(0, os.path.join(os.path.dirname(__file__), '..', 'common'))
from vlib import H
from st_probes import ST_PROBES
PR = dict(ST_PROBES); PR.update({'SZ_block_layout': 'sizeof(struct Block_layout)', 'OFF_block_invoke': 'offsetof(struct Block_layout, invoke)', 'SZ_dbpd': 'sizeof(struct dispatch_block_private_data_s)',
  'OFF_dbpd_magic': 'offsetof(struct dispatch_block_private_data_s, dbpd_magic)', 'OFF_dbpd_flags': 'offsetof(struct dispatch_block_private_data_s, dbpd_flags)', 'OFF_dbpd_atomic_flags': 'offsetof(struct dispatch_block_private_data_s, dbpd_atomic_flags)',
  'OFF_dbpd_performed': 'offsetof(struct dispatch_block_private_data_s, dbpd_performed)', 'OFF_dbpd_block': 'offsetof(struct dispatch_block_private_data_s, dbpd_block)', 'OFF_dbpd_group': 'offsetof(struct dispatch_block_private_data_s, dbpd_group)',
  'OFF_dbpd_queue': 'offsetof(struct dispatch_block_private_data_s, dbpd_queue)', 'DBPD_MAGIC': 'DISPATCH_BLOCK_PRIVATE_DATA_MAGIC',
  'SZ_vtable': 'sizeof(struct dispatch_lane_vtable_s)', 'OFF_vt_push': 'offsetof(struct dispatch_lane_vtable_s, _os_obj_vtable.dq_push)'})
ENT = ['_dispatch_block_invoke_direct', '_dispatch_block_sync_invoke', '_dispatch_block_async_invoke', 'dispatch_block_cancel', 'dispatch_block_testcancel', 'dispatch_block_wait', 'dispatch_block_notify',
       '_dispatch_group_create_and_enter', '_dispatch_lane_push', '__dispatch_tsd', '_dispatch_block_special_invoke']
STUBS = ['_dispatch_calloc', 'calloc', 'malloc', 'free', '_os_object_alloc_realized', '_dispatch_bug', 'libdispatch_tsd_init', '__errno_location', '_Block_copy', '_Block_release', '_dispatch_continuation_alloc_cacheonly',
         '_dispatch_continuation_alloc_from_heap', '_dispatch_continuation_free_cacheonly', '_dispatch_continuation_free_to_heap', '_dispatch_wait_for_enqueuer', '_dispatch_queue_override_qos', '_dispatch_introspection_queue_create',
         '_dispatch_temporary_resource_shortage', 'clock_gettime', '_dispatch_client_callout', '_dispatch_lane_push', '_dispatch_wake_by_address', '_dispatch_wait_on_address', '_dispatch_dispose', '_dispatch_xref_dispose']
def B(seq, tiers=('quick', 'thorough')):
    return H('B_' + seq, 'h_block.c', ENT, stubs=STUBS, noglobal=['_dispatch_queue_attrs', '_dispatch_mgr_q'], icall_only=['_dispatch_lane_push', '_dispatch_call_block_and_release'], harness_fns={'vp_body': ('void', ['u64'])},
             nt=1, heap=4096, defines=['-DSEQ="%s"' % seq], probes=PR, unwind=4, unwindset='harness.0:8', timeout=600, tiers=tiers, witness_any=True, symbolic=False, mem_gb=16, note='block object history "%s"' % seq)
def seqs(alpha, n):
    out = []
    for k in range(1, n + 1):
        for t in itertools.product(alpha, repeat=k):
            x = ''.join(t)
            if sum(x.count(e) for e in 'isa') > 1: continue                 # a block object that is waited for or observed may be executed only once (documented)
            if sum(x.count(w) for w in 'wpW') > 1 and 'w' in x: continue
            if x.count('w') and not any(e in x[:x.index('w')] for e in 'isa'): continue   # a FOREVER wait before any execution would hang in a sequential history
            # after a wait that returned 0 a second wait is a documented crash: at most one successful wait
            ex = min([x.index(e) for e in 'isa' if e in x] or [99])
            if sum(1 for j, c in enumerate(x) if c in 'wpW' and j > ex) > 1: continue
            out.append(x)
    return out
_q = seqs('isacptWn', 3)
HARNESSES = [B(x) for x in _q] + [B(x, tiers=('thorough',)) for x in seqs('isacptWnw', 4) if x not in _q]
ASSUMPTIONS = ['the block object is built directly in memory with the layout of queue_internal.h (offsets probed from the sources): dispatch_block_create* / block.cpp / BlocksRuntime copy helpers are outside the check',
               'at most one execution per object (the library documents executing twice together with wait/notify as a client error); the kernel wait is a stub that reports the timeout; one notification queue with a counting push',
               'W = a timed wait during whose sleep another thread calls dispatch_block_cancel']
LEVEL_TEXT = 'Block objects constructed directly in memory (layout probed from the sources) with the real private group; all histories up to length 3 (thorough 4) over {direct / sync / async invocation, cancel, testcancel, wait(FOREVER / NOW / timed with a concurrent cancel), notify}: body at most once and not at all if cancelled before start, completion on first (possibly skipped) execution, wait 0 only after completion and non-zero only on timeout, each notification submitted exactly once and not before completion, testcancel monotone (a timed-out wait does not erase a concurrent cancel).'
LEVEL_NOTE = 'dispatch_block_create* / block.cpp / BlocksRuntime copy helpers are outside (C++ unit, not encodable); one execution per object; kernel wait is a stub.'
