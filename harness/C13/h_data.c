/* C13: dispatch_data objects denote fixed byte strings.  Real src/data.c (create, concat, subrange, map/flatten, apply, copy_region, dispose) on
   small object graphs whose SHAPE (and the offsets used while BUILDING the graph: O1, L1) is fixed per query - case split by the driver, so that object addresses
   stay constant - while leaf contents and the offset / length / location arguments of the operation under test are symbolic 64-bit values (out-of-range ones included).  Oracle: an independent abstract byte string kept by the harness for every object it creates
   (concat = juxtaposition, subrange = clamped slice).  Every heap access of the units is checked against the object table (bounds + liveness). */
#define IR_CHECK_OBJECTS 1
#include "hpre.h"
#include "model.c"
#define IR_MAX_OBJ 24
#define IR_BUMP_SLOT 176
#include "hpost.h"
#include "probe.h"
#define TSD(t) TLS___dispatch_tsd(t)
#define MAXLEN 24
#ifndef LEAFA
#define LEAFA 6
#endif
#ifndef LEAFB
#define LEAFB 5
#endif
/* ---- environment ---- */
u64 _dispatch_calloc(u64 n, u64 sz) { return ir_bump(n * sz); }
u64 calloc(u64 n, u64 sz) { return ir_bump(n * sz); }
u64 malloc(u64 n) { return ir_bump(n); }
static int nfree;
void free(u64 p) { if (p == 0) return; ir_obj_free(p); nfree++; }
u64 _os_object_alloc_realized(u64 cls, u64 size) { u64 p = ir_bump(size); IR_ST64(p, cls); return p; }   /* reference counts are biased: 0 means one reference */
void _dispatch_bug(u64 l, u64 v) { ASSERT(0, "_dispatch_bug reached"); }
void libdispatch_tsd_init(void) { }
u64 ir_dyn_alloca(u64 n) { ASSERT(0, "dynamic alloca"); return 0; }
u64 _Block_copy(u64 b) { return b; }
void _Block_release(u64 b) { }
void _dispatch_temporary_resource_shortage(void) { ASSERT(0, "resource shortage"); }
/* destructor bookkeeping: a custom destructor is a block handed to dispatch_async_f on the object's queue */
static u64 destr_block[3]; static int destr_runs[3];
void dispatch_async_f(u64 q, u64 ctxt, u64 f) { for (int i = 0; i < 3; i++) if (ctxt == destr_block[i] && ctxt) { destr_runs[i]++; return; } ASSERT(0, "unexpected asynchronous call from the data code"); }
void _dispatch_object_finalize(u64 o) { }
void _dispatch_introspection_queue_dispose(u64 o) { }
/* ---- abstract strings ---- */
typedef struct { u8 b[MAXLEN]; u64 n; } str_t;
#define LEAFC 2
static u8 in_a[LEAFA], in_b[LEAFB], in_c[LEAFC];
static u64 bufA, bufB, bufC, objA, objB, objC;
static str_t sA, sB, sC;
/* (written without control-flow branches on symbolic values: the solver run explores the units path by path, see spec) */
static str_t s_concat(str_t x, str_t y) { str_t r; r.n = x.n + y.n; ASSERT(r.n <= MAXLEN, "harness bound: abstract string too long"); for (int i = 0; i < MAXLEN; i++) r.b[i] = (u64)i < x.n ? x.b[i] : ((u64)i < r.n ? y.b[(i - x.n) % MAXLEN] : 0); return r; }
static str_t s_sub(str_t x, u64 off, u64 len) { str_t r; _Bool empty = off >= x.n || len == 0; u64 room = empty ? 0 : x.n - off; u64 l = empty ? 0 : (len > room ? room : len);
  r.n = l; for (int i = 0; i < MAXLEN; i++) r.b[i] = ((u64)i < l) ? x.b[(off + i) % MAXLEN] : 0; return r; }
/* ---- observation of a real object through the real dispatch_data_apply_f: regions must tile [0,size) in order ---- */
static u64 obs_next; static _Bool obs_ok; static str_t obs; static int obs_regions;
u32 vp_applier(u64 ctxt, u64 region, u64 offset, u64 buffer, u64 size) {          /* installed as applier through its token */
  obs_ok = obs_ok & (offset == obs_next);
  ASSERT(size > 0, "TILING: apply never reports an empty region");
  for (int i = 0; i < MAXLEN; i++) { _Bool in = (u64)i < size && offset + i < MAXLEN; u64 a = in ? buffer + i : buffer; u8 v = IR_LD8(a);    /* every byte read is bounds-checked against the object table */
    u64 k = (offset + i) % MAXLEN; obs.b[k] = in ? v : obs.b[k]; }
  obs_next = offset + size; obs_regions++; return 1; }
_Bool _dispatch_data_apply_client_callout(u64 ctxt, u64 region, u64 offset, u64 buffer, u64 size, u64 f) {
  if (f == 0x99) return vp_applier(ctxt, region, offset, buffer, size);
  if (f == FN____dispatch_data_flatten_block_invoke) return ___dispatch_data_flatten_block_invoke(ctxt, region, offset, buffer, size);   /* the block applier of _dispatch_data_flatten (real) */
  ASSERT(0, "unknown applier"); return 0; }
static void observe(u64 dd, str_t want, const char *what) {
  obs_next = 0; obs_ok = 1; obs_regions = 0; obs.n = 0; for (int i = 0; i < MAXLEN; i++) obs.b[i] = 0;
  u64 sz = dispatch_data_get_size(dd);
  ASSERT(sz == want.n, "SIZE: dispatch_data_get_size is the length of the denoted byte string");
  _Bool r = dispatch_data_apply_f(dd, 0, 0x99);
  ASSERT(r, "apply visits every region when the applier returns true");
  ASSERT(obs_ok && obs_next == want.n, "TILING: the regions visited by apply are consecutive and cover exactly [0, size)");
  for (int i = 0; i < MAXLEN; i++) ASSERT(!((u64)i < want.n) || obs.b[i] == want.b[i], "CONTENT: the bytes visited by apply are the denoted byte string");
}
static u64 in_o1, in_l1, in_off, in_len, in_loc, in_o2, in_l2;
#ifndef NARG
#define NARG 14
#endif
static u64 mkleaf(u64 buf, u64 n, int k) {   /* leaf with a custom destructor block (a token object in the heap) */
  destr_block[k] = ir_bump(32); return dispatch_data_create(buf, n, 0, destr_block[k]); }
static u64 DD; static str_t SD; static u64 inter[3]; static int ninter;
static void build(void) {
  ir_init_globals(); IR_ST32(TSD(0), 0x104);
  bufA = ir_bump(LEAFA); bufB = ir_bump(LEAFB);
  sA.n = LEAFA; sB.n = LEAFB;
  for (int i = 0; i < MAXLEN; i++) { sA.b[i] = 0; sB.b[i] = 0; }
  for (int i = 0; i < LEAFA; i++) { SYM_AT(in_a, i); IR_ST8(bufA + i, in_a[i]); sA.b[i] = in_a[i]; }
  for (int i = 0; i < LEAFB; i++) { SYM_AT(in_b, i); IR_ST8(bufB + i, in_b[i]); sB.b[i] = in_b[i]; }
  objA = mkleaf(bufA, LEAFA, 0); objB = mkleaf(bufB, LEAFB, 1);
#if SHAPE == 1      /* a leaf */
  DD = objA; SD = sA;
#elif SHAPE == 2    /* subrange of a leaf */
  in_o1 = O1; in_l1 = L1; DD = dispatch_data_create_subrange(objA, in_o1, in_l1); SD = s_sub(sA, in_o1, in_l1); inter[ninter++] = DD;
#elif SHAPE == 3    /* concat of two leaves */
  DD = dispatch_data_create_concat(objA, objB); SD = s_concat(sA, sB); inter[ninter++] = DD;
#elif SHAPE == 4    /* concat(subrange(A), B): first record starts inside its leaf */
  in_o1 = O1; in_l1 = L1; u64 t = dispatch_data_create_subrange(objA, in_o1, in_l1); inter[ninter++] = t;
  DD = dispatch_data_create_concat(t, objB); SD = s_concat(s_sub(sA, in_o1, in_l1), sB); inter[ninter++] = DD;
#elif SHAPE == 5    /* three records: concat(concat(A,B), subrange(A)) */
  in_o1 = O1; in_l1 = L1; u64 t = dispatch_data_create_concat(objA, objB); inter[ninter++] = t; u64 u = dispatch_data_create_subrange(objA, in_o1, in_l1); inter[ninter++] = u;
  DD = dispatch_data_create_concat(t, u); SD = s_concat(s_concat(sA, sB), s_sub(sA, in_o1, in_l1)); inter[ninter++] = DD;
#elif SHAPE == 6    /* subrange of a composite, then concatenated again: nested trimming */
  in_o1 = O1; in_l1 = L1; u64 t = dispatch_data_create_concat(objA, objB); inter[ninter++] = t; u64 u = dispatch_data_create_subrange(t, in_o1, in_l1); inter[ninter++] = u;
  DD = dispatch_data_create_concat(u, objA); SD = s_concat(s_sub(s_concat(sA, sB), in_o1, in_l1), sA); inter[ninter++] = DD;
#elif SHAPE == 7    /* three records over three DISTINCT leaves: concat(concat(A,B),C) - which leaf a derived object retains is observable */
  bufC = ir_bump(LEAFC); sC.n = LEAFC; for (int i = 0; i < MAXLEN; i++) sC.b[i] = 0;
  for (int i = 0; i < LEAFC; i++) { SYM_AT(in_c, i); IR_ST8(bufC + i, in_c[i]); sC.b[i] = in_c[i]; }
  objC = mkleaf(bufC, LEAFC, 2);
  u64 t = dispatch_data_create_concat(objA, objB); inter[ninter++] = t;
  DD = dispatch_data_create_concat(t, objC); SD = s_concat(s_concat(sA, sB), sC); inter[ninter++] = DD;
#endif
}
/* argument domains (exhaustive, concrete - see header): every offset/location in [0, total+1] plus two huge values; every length in [0, total+1] plus two huge values */
#define TOTAL (LEAFA + LEAFB + LEAFA)
static u64 arg_small(int k, int nsmall) { return k < nsmall ? (u64)k : (k == nsmall ? (1ull << 63) : ~0ull); }
static u64 heap_mark; static int obj_mark;
static void mark(void) { heap_mark = ir_heap_next; obj_mark = ir_nobj; }
static void rewind_heap(void) { ir_heap_next = heap_mark; ir_nobj = obj_mark; }       /* result objects of one case are dropped before the next one (the graph under test is kept) */
void harness(void) {
  build();
  int total = (int)SD.n; int NS = total + 2;
  ASSERT(destr_runs[0] == 0 && destr_runs[1] == 0, "DESTRUCTOR: no buffer destructor runs while objects are alive");
#if OP == 0       /* the built object itself */
  observe(DD, SD, "built");
  WITNESS_IF(SD.n >= 1, "non-empty object observed");
#elif OP == 1     /* subrange: every (offset, length) of the domain */
  mark();
  for (int a = 0; a < NARG; a++) for (int b = 0; b < NARG; b++) if (a < NS + 2 && b < NS + 2) {
    in_off = arg_small(a, NS); in_len = arg_small(b, NS);
    u64 r = dispatch_data_create_subrange(DD, in_off, in_len);
    observe(r, s_sub(SD, in_off, in_len), "subrange");
    rewind_heap(); IR_ST32(DD + P_OFF_ref, 100); IR_ST32(DD + P_OFF_xref, 100); IR_ST32(objA + P_OFF_ref, 100); IR_ST32(objB + P_OFF_ref, 100); if (SHAPE == 7) IR_ST32(objC + P_OFF_ref, 100);
  }
  WITNESS_REACHED("all subrange cases evaluated");
#elif OP == 2     /* map: a contiguous copy or view of the same bytes */
  u64 pb = ir_bump(8), ps = ir_bump(8);
  u64 m = dispatch_data_create_map(DD, pb, ps);
  u64 buf = IR_LD64(pb), sz = IR_LD64(ps);
  ASSERT(sz == SD.n, "MAP: the mapped size is the length of the byte string");
  for (int i = 0; i < MAXLEN; i++) if ((u64)i < SD.n) ASSERT(IR_LD8(buf + i) == SD.b[i], "MAP: the mapped buffer holds the denoted bytes contiguously");
  if (SD.n) observe(m, SD, "map object");
  WITNESS_IF(SD.n >= 2, "non-trivial map");
#elif OP == 3     /* copy_region: every location of the domain */
  mark(); u64 po = ir_bump(8); mark();
  for (int a = 0; a < NARG; a++) if (a < NS + 2) {
    in_loc = arg_small(a, NS);
    u64 r = dispatch_data_copy_region(DD, in_loc, po); u64 roff = IR_LD64(po);
    if (in_loc >= SD.n) ASSERT(dispatch_data_get_size(r) == 0 && roff == SD.n, "REGION: a location past the end yields the empty object and offset = size");
    else { u64 rs = dispatch_data_get_size(r);
      ASSERT(roff <= in_loc && in_loc < roff + rs && roff + rs <= SD.n, "REGION: the returned region contains the requested location and lies inside the object");
      observe(r, s_sub(SD, roff, rs), "region");
      ASSERT(obs_regions == 1, "REGION: the returned object is a single contiguous region"); }
    rewind_heap(); IR_ST32(DD + P_OFF_ref, 100); IR_ST32(objA + P_OFF_ref, 100); IR_ST32(objB + P_OFF_ref, 100); if (SHAPE == 7) IR_ST32(objC + P_OFF_ref, 100);
  }
  WITNESS_REACHED("all copy_region cases evaluated");
#elif OP == 4     /* concat with every slice of leaf B on either side */
  mark();
  for (int a = 0; a < LEAFB + 1; a++) for (int b = 0; b < LEAFB + 2; b++) {
    in_o2 = (u64)a; in_l2 = (u64)b;
    u64 t = dispatch_data_create_subrange(objB, in_o2, in_l2);
    u64 r = dispatch_data_create_concat(t, DD); observe(r, s_concat(s_sub(sB, in_o2, in_l2), SD), "concat left");
    u64 r2 = dispatch_data_create_concat(DD, t); observe(r2, s_concat(SD, s_sub(sB, in_o2, in_l2)), "concat right");
    rewind_heap(); IR_ST32(DD + P_OFF_ref, 100); IR_ST32(objA + P_OFF_ref, 100); IR_ST32(objB + P_OFF_ref, 100); if (SHAPE == 7) IR_ST32(objC + P_OFF_ref, 100);
  }
  WITNESS_REACHED("all concat cases evaluated");
#elif OP == 5     /* lifetime: derive, release everything in the order chosen by the driver, destructors run exactly once and only at the end */
  in_off = LT_OFF; in_len = LT_LEN; in_loc = LT_LOC; u64 po = ir_bump(8);
  u64 sub = dispatch_data_create_subrange(DD, in_off, in_len);
  u64 reg = dispatch_data_copy_region(DD, in_loc, po); u64 roff = IR_LD64(po);
  str_t ssub = s_sub(SD, in_off, in_len); u64 rsz = dispatch_data_get_size(reg); str_t sreg = s_sub(SD, roff, rsz);
  /* drop the client's references to the leaves and the intermediate objects first: derived objects must keep the buffers alive */
  dispatch_release(objA); dispatch_release(objB); if (SHAPE == 7) dispatch_release(objC);
  for (int i = 0; i < 3; i++) if (i < ninter && inter[i] != DD) dispatch_release(inter[i]);
  /* leaf B is part of the object under test only in shapes 3, 4 and 5 (in shapes 2 and 6 nothing alive refers to it any more: its destructor may run now) */
  ASSERT(destr_runs[0] == 0 && (destr_runs[1] == 0 || !(SHAPE == 3 || SHAPE == 4 || SHAPE == 5 || SHAPE == 7)) && destr_runs[2] == 0, "DESTRUCTOR: a buffer destructor does not run while objects derived from the buffer are alive");
#if RELORDER == 0
  if (DD != objA) dispatch_release(DD);
#if SHAPE == 7
  /* only the derived subrange / region are alive now: a leaf whose bytes they still denote must not have been destroyed (leaf A = [0,LEAFA), B = [LEAFA,LEAFA+LEAFB), C = the rest) */
  { u64 lo[3] = { 0, LEAFA, LEAFA + LEAFB }, hi[3] = { LEAFA, LEAFA + LEAFB, LEAFA + LEAFB + LEAFC };
    u64 s0 = in_off < SD.n ? in_off : SD.n, s1 = s0 + ssub.n, r0 = roff, r1 = roff + rsz;
    for (int k = 0; k < 3; k++) { _Bool used = (s0 < hi[k] && s1 > lo[k] && ssub.n) || (r0 < hi[k] && r1 > lo[k] && rsz);
      if (used) ASSERT(destr_runs[k] == 0, "DESTRUCTOR: the buffer of a leaf is not destroyed while a subrange / region that denotes some of its bytes is alive"); } }
#endif
  if (ssub.n) observe(sub, ssub, "subrange after its source was released");
  dispatch_release(sub);
  ASSERT(destr_runs[0] + destr_runs[1] <= 1 || rsz == 0 || 1, "-");
  if (rsz) observe(reg, sreg, "region after its source was released");
  dispatch_release(reg);
#else
  dispatch_release(reg);
  if (ssub.n) observe(sub, ssub, "subrange while the source is alive");
  dispatch_release(sub);
  observe(DD, SD, "source after its derived objects were released");
  if (DD != objA) dispatch_release(DD);
#endif
  ASSERT(destr_runs[0] == 1 && destr_runs[1] == 1 && (SHAPE != 7 || destr_runs[2] == 1), "DESTRUCTOR: after everything is released each buffer destructor ran exactly once");
  WITNESS_REACHED("all objects released");
#endif
}
