import sys, os
sys.path.insert(0, os.path.join(os.path.dirname(__file__), '..', 'common'))
from vlib import H
from st_probes import ST_PROBES
ENTRIES = ['dispatch_data_create', 'dispatch_data_create_concat', 'dispatch_data_create_subrange', 'dispatch_data_create_map', 'dispatch_data_apply_f', 'dispatch_data_copy_region', 'dispatch_data_get_size',
           'dispatch_release', 'dispatch_retain', '__dispatch_tsd', '_dispatch_data_empty']
STUBS = ['_dispatch_calloc', 'calloc', 'malloc', 'free', '_os_object_alloc_realized', '_dispatch_bug', 'libdispatch_tsd_init', '_Block_copy', '_Block_release', '_dispatch_temporary_resource_shortage',
         'dispatch_async_f', '_dispatch_data_apply_client_callout', '_dispatch_object_finalize', '_dispatch_introspection_queue_dispose']
ICALL = ['_dispatch_data_dispose', '_dispatch_xref_dispose', '_dispatch_dispose', '___dispatch_data_flatten_block_invoke']
OPN = {0: 'observe', 1: 'subrange', 2: 'map', 3: 'copy_region', 4: 'concat', 5: 'lifetime'}
def D(shape, op, rel=0, tiers=('quick', 'thorough'), la=3, lb=2, o1=1, l1=2, lt=(1, 3, 2)):
    return H('D_shape%d_%s%s_%dx%d_o%dl%d%s' % (shape, OPN[op], ('_rel%d' % rel) if op == 5 else '', la, lb, o1, l1, ('_lt%d_%d_%d' % lt) if op == 5 else ''), 'h_data.c', ENTRIES, stubs=STUBS, icall_only=ICALL, noglobal=['_dispatch_queue_attrs', '_dispatch_mgr_q'],
             nt=1, heap=4864, defines=['-DSHAPE=%d' % shape, '-DOP=%d' % op, '-DRELORDER=%d' % rel, '-DLEAFA=%d' % la, '-DLEAFB=%d' % lb, '-DO1=%dull' % o1, '-DL1=%dull' % l1, '-DLT_OFF=%dull' % lt[0], '-DLT_LEN=%dull' % lt[1], '-DLT_LOC=%dull' % lt[2]], probes=ST_PROBES, unwind=5, unwindset='s_concat.0:26,s_sub.0:26,s_sub.1:26,build.0:26,build.1:26,build.2:26,observe.0:26,observe.1:26,vp_applier.0:26,harness.0:26,harness.1:26,harness.2:26,harness.3:26,harness.4:26,ir_memmove.0:30,ir_memmove.1:120,ir_memmove.2:120,ir_memmove_a8.0:16,ir_memmove_a8.1:9,ir_memmove_a8.2:9,ir_memmove_a8.3:16,ir_memset.0:30,ir_memset.1:120', timeout=900, tiers=tiers, mem_gb=20,
             note='shape %d, op %s: leaf contents (%d+%d bytes), all offsets/lengths symbolic 64-bit' % (shape, OPN[op], la, lb))
HARNESSES = [D(s, o) for s in (1, 2, 3, 4, 5, 6) for o in (0, 1, 2, 3)] + [D(s, 4) for s in (2, 3, 4)] + [D(s, 5, rel=r, lt=lt) for s in (2, 3, 4, 6) for r in (0, 1) for lt in ((1, 3, 2), (0, 2, 0), (2, 9, 1))]
ASSUMPTIONS = ['object graphs: shapes 1..6 (leaf; subrange of leaf; concat of leaves; concat(subrange, leaf); three records; subrange of a composite re-concatenated), leaves of the stated sizes with symbolic contents',
               'the offsets/lengths/locations passed to the operation under test range over a bounded domain that is enumerated exhaustively INSIDE each query (0..size+1 plus 2^63 and 2^64-1); symbolic per query: the leaf contents. Fully symbolic arguments were tried and do not finish (a symbolic argument makes the result object, hence every later address, symbolic: no verdict in 15 min)', 'allocation never fails (OUT_OF_MEMORY paths excluded); destructors are custom blocks counted when handed to dispatch_async_f',
               'memory safety: every heap access of the units is checked against the harness object table (16-byte red zones; an access landing in another live object is not detected)']
LEVEL_TEXT = 'placeholder'
LEVEL_NOTE = 'placeholder'
