import sys, os
sys.path.insert(0, os.path.join(os.path.dirname(__file__), '..', 'common'))
from vlib import H
from hist_spec import HH
from seqs import seqs
import itertools
def ops_on(levels, alphabet, n):
    """all sequences of n ops, each op letter optionally addressed to a queue level"""
    toks = [a + (str(l) if l else '') for a in alphabet for l in levels] + ['R']
    out = []
    for t in itertools.product(toks, repeat=n):
        if t[0] == 'R' or t[-1] == 'R': continue
        if any(t[i] == 'R' and t[i + 1] == 'R' for i in range(n - 1)): continue
        out.append(''.join(t))
    return out
def nested(levels, outer='as', inner='sBw'):
    """an item running on one level while client thread B submits synchronously to any level: the bottom queue must serialise them"""
    out = []
    for o in outer:
        for lo in levels:
            for i in inner:
                for li in levels:
                    out.append('%s%s^%s%s' % (o, lo if lo else '', i, li if li else ''))
    return out
HARNESSES = []
# (a) serial -> serial -> root ; (b) concurrent -> serial -> root ; (c) fan-in of two queues on one serial queue ; retarget-before-activate variants
for cfg in (dict(chain=True), dict(chain=True, conc=True), dict(fanin=True), dict(chain=True, settarget=True), dict(chain=True, conc=True, settarget=True), dict(chain=True, settarget=True, qos=4), dict(chain=True, qos=2)):
    lv = (0, 1, 2) if cfg.get('fanin') else (0, 1)
    q = ops_on(lv, 'as', 2)
    HARNESSES += [HH(x, **cfg) for x in q]
    HARNESSES += [HH(x, **cfg) for x in nested(lv, inner='sw' if cfg.get('settarget') or cfg.get('fanin') else 'sBw')]
    HARNESSES += [HH(x, tiers=('thorough',), **cfg) for x in ops_on(lv, 'asbB', 3) if x not in q]
# dispatch_async_and_wait through the hierarchy (its item may be parked on a busy lower level and run by that level's drainer, which must keep its own lock: _dispatch_sync_complete_recurse stops at stop_dq):
# every sequence of 3 operations over {async, sync, async_and_wait} x levels (+ worker) that contains an async_and_wait - serial->serial in the quick tier, the other shapes in the thorough tier
_w3 = [x for x in ops_on((0, 1), 'asw', 3) if 'w' in x]
HARNESSES += [HH(x, chain=True) for x in _w3] + [HH(x, chain=True, conc=True, tiers=('thorough',)) for x in _w3] + [HH(x, fanin=True, tiers=('thorough',)) for x in ops_on((0, 1, 2), 'asw', 3) if 'w' in x]
# dispatch_set_target_queue on the ACTIVE top queue (three unrelated queues; 'T' retargets queue 0 onto serial queue 1): every sequence of <= 3 (thorough 4) operations over
# {async, sync, async on the new target, worker, T} with exactly one T, plus retargets issued from inside a running item; oracle: LOCK-CHAIN (hist_item_body) + the per-queue ones
def _rt(n):
    out = []
    for t in itertools.product(['a', 's', 'a1', 'R', 'T'], repeat=n):
        if t.count('T') != 1 or t[0] == 'R' or t[-1] == 'R' or t[-1] == 'T' or any(t[i] == 'R' and t[i + 1] == 'R' for i in range(n - 1)): continue
        out.append(''.join(t))
    return out
_rtq = _rt(2) + _rt(3) + ['aTaa', 'aTa1a', 'aTsa', 'aaTa', 'a^Ta', 'aTaRa1', 's~Ta', 'a~Taa']
_rtx = dict(indep=True, icall_extra=['_dispatch_lane_legacy_set_target_queue'], name_extra='_retarget')
HARNESSES += [HH(x, **_rtx) for x in _rtq] + [HH(x, tiers=('thorough',), **_rtx) for x in _rt(4) if x not in _rtq]
HARNESSES += [HH(x, chain=True) for x in ('a1wa1s', 'a1wa1Rs', 'a1w1a1s', 'a1Rwa1s')]
# (e) the bottom of the hierarchy is the real thread-bound MAIN queue (serviced by the main thread through _dispatch_main_queue_callback_4CF)
HARNESSES += [HH(x, mainq=True) for x in ops_on((0, 1), 'as', 2)] + [HH(x, mainq=True) for x in nested((0, 1), inner='sw')] + [HH(x, mainq=True, tiers=('thorough',)) for x in ops_on((0, 1), 'asw', 3)]
ASSUMPTIONS = ['tier H: hierarchies (a) serial->serial->root, (b) concurrent->serial->root, (c) two queues fanning in on one serial queue, (d) the same built by dispatch_set_target_queue on an inactive queue followed by dispatch_activate',
               'histories are sequential; overlap is exercised through nested operations: while an item runs, client thread B submits synchronously to any level (if B must sleep its path ends there); worker choice: oldest pending hand-off',
               'workloops as hierarchy bottom are not covered: on this platform a serial queue targeting a dispatch_workloop crashes in _dispatch_lane_drain (DISPATCH_INVOKE_WORKLOOP_DRAIN dereferences a non-workloop wlh) - see DESIGN, known limitation of the build, not exercised',
               'depth <= 3, fan-in <= 2', '(e) a serial queue targeting the real thread-bound main queue: the run-loop poke is a recorded hand-off, the main thread (model thread 1) drains with the real _dispatch_main_queue_callback_4CF', 'LOCK-CHAIN oracle: whenever an item of a queue whose do_targetq is a serial queue of the hierarchy starts, the running thread holds that serial queue\'s drain lock (covers hierarchies built by dispatch_set_target_queue on an active queue)']
LEVEL_TEXT = 'Tier H on real code: hierarchies serial->serial->root, concurrent->serial->root, two queues fanning in on one serial queue, the same built through dispatch_set_target_queue on an inactive queue + activate, with and without a client-chosen QoS attribute; every sequence of 2 (thorough 3) submissions addressed to any level, plus nested histories in which a second client submits synchronously to any level while an item of any level runs: at most one item of the hierarchy runs at a time, per-queue FIFO. Also: every sequence of 3 operations containing dispatch_async_and_wait on any level (its item parked on a busy lower level is run by that level\'s drainer, which must keep its own lock), and dispatch_set_target_queue on an ACTIVE queue (one retarget in every sequence of <= 3 (4) operations, also issued from inside a running item) judged by the LOCK-CHAIN oracle: an item of a queue whose do_targetq is a serial queue of the hierarchy starts only on a thread that holds that queue\'s drain lock. Histories also on a serial queue targeting the real thread-bound MAIN queue and on the main queue itself: the run-loop poke is a recorded hand-off and the main thread (model thread 1) drains with the real _dispatch_main_queue_callback_4CF / _dispatch_main_queue_drain; synchronous items submitted from another thread are run remotely by the main thread.'
LEVEL_NOTE = "Depth <= 3, fan-in <= 2, sequential histories with nested client submissions; workloops as hierarchy bottom are not exercised (a serial queue targeting a workloop crashes on this platform's build); retargeting of an ACTIVE queue: histories with one dispatch_set_target_queue on the active top queue (three otherwise unrelated queues)."
