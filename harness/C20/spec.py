import sys, os
sys.path.insert(0, os.path.join(os.path.dirname(__file__), '..', 'common'))
from vlib import H
from st_probes import ST_PROBES
ENT = ['dispatch_data_create', 'dispatch_data_create_concat', 'dispatch_data_create_subrange', 'dispatch_data_create_with_transform', 'dispatch_data_apply_f', 'dispatch_data_get_size', '__dispatch_tsd', '_dispatch_data_empty',
       '_dispatch_data_format_type_none', '_dispatch_data_format_type_base32', '_dispatch_data_format_type_base32hex', '_dispatch_data_format_type_base64', '_dispatch_data_destructor_none', '_dispatch_data_format_type_utf8', '_dispatch_data_format_type_utf16le', '_dispatch_data_format_type_utf16be']
STUBS = ['_dispatch_calloc', 'calloc', 'malloc', 'realloc', 'free', '_os_object_alloc_realized', '_dispatch_bug', 'libdispatch_tsd_init', '_Block_copy', '_Block_release', '_dispatch_temporary_resource_shortage',
         'dispatch_async_f', '_dispatch_data_apply_client_callout', '_dispatch_object_finalize', '_dispatch_introspection_queue_dispose']
ICALL = ['_dispatch_data_dispose', '_dispatch_xref_dispose', '_dispatch_dispose', '___dispatch_data_flatten_block_invoke', '___dispatch_transform_*_block_invoke*', '_dispatch_transform_from_base32', '_dispatch_transform_to_base32',
         '_dispatch_transform_from_base32hex', '_dispatch_transform_to_base32hex', '_dispatch_transform_from_base64', '_dispatch_transform_to_base64', '_dispatch_transform_from_utf16le', '_dispatch_transform_to_utf16le', '_dispatch_transform_from_utf16be', '_dispatch_transform_to_utf16be', '_dispatch_transform_to_utf8_without_bom']
FN = {0: 'base32', 1: 'base32hex', 2: 'base64', 3: 'utf16le', 4: 'utf16be'}
def TR(mode, fmt, n, split=0, split2=0, tiers=('quick', 'thorough'), timeout=900, text=None, symmask=0, splitb=0, cname=None):
    return H('TR_%s_%s_n%d%s%s%s' % ({0: 'dec', 1: 'rt', 2: 'enc', 3: 'utf', 4: 'decv', 5: 'utfv'}[mode], FN[fmt], n, ('_s%d' % split) if split else '', ('_r%d' % split2) if split2 else '', ('_%s_m%x' % (cname or text.replace('=', '-'), symmask)) if text else '') + (('_b%d' % splitb) if splitb else ''), 'h_tr.c', ENT, stubs=STUBS, icall_only=ICALL,
             noglobal=['_dispatch_queue_attrs', '_dispatch_mgr_q', '_dispatch_root_queues', '_dispatch_pthread_root_queue_contexts'], nt=1, heap=7936, pagewords=64, defines=['-DMODE=%d' % mode, '-DFMT=%d' % fmt, '-DN=%d' % n, '-DSPLIT=%d' % split, '-DSPLIT2=%d' % split2] + (['-DTEXT="%s"' % text, '-DSYMMASK=%d' % symmask] if text else []) + (['-DSPLITB=%d' % splitb] if splitb else []), probes=ST_PROBES,
             unwind=30, timeout=timeout, tiers=tiers, mem_gb=20, paths=(mode in (0, 3, 4, 5)), mode=('stop' if mode in (0, 3, 4, 5) else 'all'), witness=('twin' if mode in (0, 3, 4, 5) else 'inline'), witness_any=True,
             note='%s %s, %d symbolic input bytes%s%s' % ({0: 'decode of arbitrary text from', 1: 'round trip through', 2: 'real encoder vs reference decoder,', 3: 'well-formed UTF-8 round trip through', 5: 'UTF-8 text with symbolic continuation bytes round trip through', 4: 'real decoder vs reference decoder on a valid text%s of' % ((' "%s" (symbolic alphabet characters at mask 0x%x)' % (text, symmask)) if text else '')}[mode], FN[fmt], n, (', input split after %d bytes' % split) if split else '', (', encoded text split after %d characters' % split2) if split2 else ''))
HARNESSES = [TR(0, f, 1) for f in (0, 2)] + [TR(0, 1, 1, tiers=('thorough',))] + [TR(0, f, 2, tiers=('thorough',), timeout=3000) for f in (0, 1, 2)]
HARNESSES += [TR(2, f, n, split=sp) for f in (0, 1, 2) for n in (1, 2, 3, 5) for sp in ((0, 1) if n > 1 else (0,))] + [TR(2, f, n, split=sp, tiers=('thorough',)) for f in (0, 1, 2) for n in (4, 6) for sp in (0, 2, 3)]
HARNESSES += [TR(0, 2, 4, split=2, tiers=('thorough',), timeout=3000)]
# MODE 5 (UTF-8 text with concrete lead bytes and ONE symbolic continuation byte, whole model heap mirrored byte by byte so that the concrete bytes of every stage stay constants): NOT registered -
# measured: 329 paths explored, then cbmc runs out of 20 GB after 12 min for the 4-byte text 'a' + U+20AC split after 2 bytes.  Together with MODE 3 this closes the UTF clause as out of reach.
# MODE 4: the real decoder on VALID texts (whole groups incl. every RFC 4648 padding length), two adjacent characters symbolic over the whole alphabet, text unsplit and split between them
VT = {0: ['MZXW6YTB', 'MY======', 'MZXQ====', 'MZXW6===', 'MZXW6YQ='], 1: ['CPNMUOJ1', 'CO======', 'CPNG====', 'CPNMU===', 'CPNMUOG='], 2: ['Zm9v', 'Zg==', 'Zm8=']}
def _decv():
    hs = []
    for f, texts in VT.items():
        full = texts[0]; g = len(full)
        Q = ('quick', 'thorough'); T = ('thorough',)
        # quick: one symbolic alphabet character at a time (every other character of the text concrete): inside a group that is split right after it, at the end of an unsplit group,
        # in the shortest padded text, and at the start of the second group of a two-group text split inside that group
        hs.append(TR(4, f, g, split=2, text=full, symmask=1 << 1, tiers=Q))
        hs.append(TR(4, f, g, split=0, text=full, symmask=1 << (g - 1), tiers=Q))
        hs.append(TR(4, f, g, split=0, text=texts[1], symmask=1 << 0, tiers=Q))
        hs.append(TR(4, f, 2 * g, split=g + 1, text=full + texts[-1], symmask=1 << g, tiers=Q))
        nd1 = len(texts[1].rstrip('='))
        hs.append(TR(4, f, 2 * g, split=2 * g - 1, text=full + texts[1], symmask=1 << (g - 1), tiers=Q))     # split INSIDE the padding of the last group (before its last character)
        hs.append(TR(4, f, g, split=nd1 + 1, text=texts[1], symmask=1 << 1, tiers=Q))                          # ... and right after its first padding character
        # thorough: every position of every text (all padding lengths), unsplit and split after the symbolic character; and two adjacent symbolic characters with the split between them
        for t in texts:
            nd = len(t.rstrip('='))
            for p in range(nd):
                for sp in (0, p + 1):
                    if sp < len(t): hs.append(TR(4, f, len(t), split=sp, text=t, symmask=1 << p, tiers=T, timeout=1800))
            for p in range(nd - 1):
                hs.append(TR(4, f, len(t), split=p + 1, text=t, symmask=3 << p, tiers=T, timeout=3000))
            for sp in range(nd + 1, len(t)):     # every split inside the padding
                hs.append(TR(4, f, len(t), split=sp, text=t, symmask=1 << (nd - 1), tiers=T, timeout=1800))
    return hs
HARNESSES += _decv()
# MODE 3 (UTF-8 <-> UTF-16 round trip, h_tr.c) is NOT registered: measured dead end (path mode: every range test on the decoded character forks, infeasible forks are not pruned -> 2^14 paths per character,
# no verdict in 15 min for ONE character; merged mode: pointer advance depends on the bytes -> symbolic addresses, symbolic execution does not finish in 10 min for one character).  See DESIGN section 3.
ASSUMPTIONS = ['input length and fragmentation fixed per query (bytes symbolic); allocation never fails; every heap access checked against the harness object table',
               'UTF-8/UTF-16 transforms are not covered by this check']
LEVEL_TEXT = 'Base32 / Base32Hex / Base64 through the real transform.c + data.c with SYMBOLIC input bytes: (c) the real DECODER on valid texts (whole groups with every RFC 4648 padding length, one (thorough: two adjacent) character(s) symbolic over the whole alphabet, the others concrete; unsplit, split inside a group, split inside the padding, two groups) against the reference decoder - with (b) this is the round trip, independent of fragmentation; it found the Base32Hex table-size defect and the split-padding defect fixed in /repo; (a) arbitrary text of 1 (thorough 2, and 4 split inside a group) characters decoded path by path: result NULL or of plausible size, no out-of-bounds heap access, no absurd allocation - this found the padding underflow fixed in /repo; (b) the real encoder on 1..6 symbolic bytes, unfragmented and split into two regions, against an independent RFC 4648 reference decoder written in the harness: length, alphabet, padding and recovered bytes.'
LEVEL_NOTE = 'The real decoder is run on valid texts with one symbolic alphabet character at a time (two adjacent ones in the thorough tier); arbitrary multi-character text only in the thorough tier; UTF-8/UTF-16 transforms are NOT covered (two encodings measured as out of reach, see spec.py / DESIGN).'
ASSUMPTIONS = list(ASSUMPTIONS) + ['valid-text decoder mode: the text is a fixed valid encoding in which the characters selected by a mask are replaced by arbitrary characters of the alphabet (symbolic); the input buffer is mirrored byte by byte (byte window) so that concrete characters stay constants for the path-wise exploration']
