/* C20: data transforms.  Real src/transform.c + src/data.c through dispatch_data_create_with_transform.  Input bytes are SYMBOLIC; the length N and the split of the
   input into regions are fixed per query (case split by the driver); explored path by path (cbmc --paths: every branch on a byte value is a path, pointers stay concrete).
   MODE 0 (DEC): arbitrary input decoded from format FMT: the result is NULL, or a data object of plausible size; every heap access is checked against the object table.
   MODE 1 (RT):  none -> FMT -> none round trip returns the original bytes, whatever the fragmentation of the input and of the intermediate encoded text. */
#define IR_CHECK_OBJECTS 1
#if MODE == 5
#define IR_BYTEWIN 7936     /* the whole model heap is mirrored byte by byte (text buffers of every stage keep their concrete bytes concrete) */
#elif MODE == 4
#define IR_BYTEWIN 24      /* the input text is mirrored byte by byte: its concrete characters stay constants next to a symbolic one */
#endif
#include "hpre.h"
#include "model.c"
#define IR_MAX_OBJ 40
#define IR_BUMP_SLOT 176
#include "hpost.h"
#include "probe.h"
#ifndef N
#define N 2
#endif
#ifndef SPLIT
#define SPLIT 0          /* 0: one region; k>0: two regions, the first of k bytes */
#endif
#ifndef SPLIT2
#define SPLIT2 0         /* RT only: the encoded text is re-fragmented at this position before decoding */
#endif
u64 _dispatch_calloc(u64 n, u64 sz) { return ir_bump(n * sz); }
u64 calloc(u64 n, u64 sz) { return ir_bump(n * sz); }
static u64 in_malloc_sz;
u64 malloc(u64 n) { ASSERT(n <= 4096, "SIZE: a transform asks for an absurd buffer size (size arithmetic wrapped)"); return ir_bump(n); }
u64 realloc(u64 p, u64 n) { ASSERT(0, "realloc not modelled"); return 0; }
void free(u64 p) { if (p) ir_obj_free(p); }
u64 _os_object_alloc_realized(u64 cls, u64 size) { u64 p = ir_bump(size); IR_ST64(p, cls); return p; }
void _dispatch_bug(u64 l, u64 v) { ASSERT(0, "_dispatch_bug reached"); }
void libdispatch_tsd_init(void) { }
u64 ir_dyn_alloca(u64 n) { ASSERT(0, "dynamic alloca"); return 0; }
u64 _Block_copy(u64 b) { return b; } void _Block_release(u64 b) { }
void _dispatch_temporary_resource_shortage(void) { ASSERT(0, "resource shortage"); }
void dispatch_async_f(u64 q, u64 c, u64 f) { ASSERT(0, "unexpected async"); }
void _dispatch_object_finalize(u64 o) { } void _dispatch_introspection_queue_dispose(u64 o) { }
#if MODE == 2 || MODE == 3 || MODE == 4 || MODE == 5
#define MAXOUT 16
#else
#define MAXOUT (N + 2)
#endif
static u8 in_byte[N + 1]; static u8 out[MAXOUT]; static u64 out_n; static _Bool out_ok;
/* observe an object through the real apply with a harness applier */
_Bool _dispatch_data_apply_client_callout(u64 ctxt, u64 region, u64 offset, u64 buffer, u64 size, u64 f) {
  if (f == 0x99) { out_ok = out_ok & (offset == out_n) & (size > 0) & (offset + size <= MAXOUT);
    for (int i = 0; i < MAXOUT; i++) { _Bool in = (u64)i < size && offset + i < MAXOUT; u8 v = IR_LD8(in ? buffer + i : buffer); u64 k = (offset + i) % MAXOUT; out[k] = in ? v : out[k]; }
    out_n = offset + size; return 1; }
  return IR_CALL_APPLIER5(f, ctxt, region, offset, buffer, size); }
static void observe(u64 dd) { out_n = 0; out_ok = 1; for (int i = 0; i < MAXOUT; i++) out[i] = 0; dispatch_data_apply_f(dd, 0, 0x99); }
static int ref_val(u8 c);
static u64 mkinput(void) {
  u64 buf = ir_bump(N ? N : 1);
#if MODE == 5
  { static const unsigned char text[] = TEXT;      /* well-formed UTF-8 given by the driver; the continuation bytes selected by SYMMASK are symbolic over 0x80..0xBF */
    for (int i = 0; i < N; i++) { if ((SYMMASK >> i) & 1) { SYM_AT(in_byte, i); ASSUME((in_byte[i] & 0xC0) == 0x80); } else in_byte[i] = text[i]; IR_ST8(buf + i, in_byte[i]); } }
#elif MODE == 4
  ir_bytewin_base = buf;
  /* a VALID text: the characters selected by SYMMASK are arbitrary characters of the format's alphabet (symbolic), the others are the given text */
  { static const char text[] = TEXT;
    for (int i = 0; i < N; i++) { if ((SYMMASK >> i) & 1) { SYM_AT(in_byte, i); ASSUME(ref_val(in_byte[i]) >= 0); } else in_byte[i] = (u8)text[i]; IR_ST8(buf + i, in_byte[i]); } }
#else
  for (int i = 0; i < N; i++) { SYM_AT(in_byte, i); IR_ST8(buf + i, in_byte[i]); }
#endif
  u64 none = IR_LD64(G__dispatch_data_destructor_none);
#if SPLIT == 0
  return dispatch_data_create(buf, N, 0, none);
#elif defined(SPLITB) && SPLITB > SPLIT
  { u64 a = dispatch_data_create(buf, SPLIT, 0, none), b = dispatch_data_create(buf + SPLIT, SPLITB - SPLIT, 0, none), c = dispatch_data_create(buf + SPLITB, N - SPLITB, 0, none);
    return dispatch_data_create_concat(dispatch_data_create_concat(a, b), c); }
#else
  u64 a = dispatch_data_create(buf, SPLIT, 0, none), b = dispatch_data_create(buf + SPLIT, N - SPLIT, 0, none);
  return dispatch_data_create_concat(a, b);
#endif
}
#define UTF16_T (FMT == 3 ? G__dispatch_data_format_type_utf16le : G__dispatch_data_format_type_utf16be)
/* reference: is b[0..n) well-formed UTF-8 (Unicode 3.9 table 3-7: no overlong forms, no surrogates, <= U+10FFFF)?  Written for the harness, independent of transform.c */
static _Bool ref_utf8_wf(const u8 *b, int n) {
  int i = 0;
  while (i < n) { u8 c = b[i];
    if (c < 0x80) { i += 1; continue; }
    if (c >= 0xC2 && c <= 0xDF) { if (i + 1 >= n || (b[i + 1] & 0xC0) != 0x80) return 0; i += 2; continue; }
    if (c >= 0xE0 && c <= 0xEF) { if (i + 2 >= n) return 0; u8 d = b[i + 1];
      if ((d & 0xC0) != 0x80 || (b[i + 2] & 0xC0) != 0x80) return 0;
      if (c == 0xE0 && d < 0xA0) return 0; if (c == 0xED && d > 0x9F) return 0; i += 3; continue; }
    if (c >= 0xF0 && c <= 0xF4) { if (i + 3 >= n) return 0; u8 d = b[i + 1];
      if ((d & 0xC0) != 0x80 || (b[i + 2] & 0xC0) != 0x80 || (b[i + 3] & 0xC0) != 0x80) return 0;
      if (c == 0xF0 && d < 0x90) return 0; if (c == 0xF4 && d > 0x8F) return 0; i += 4; continue; }
    return 0; }
  return 1; }
#if MODE == 5
static void bw_on(void) { ir_bytewin_base = IR_HEAP_BASE; }
#endif
#define FMT_T (FMT == 0 ? G__dispatch_data_format_type_base32 : FMT == 1 ? G__dispatch_data_format_type_base32hex : G__dispatch_data_format_type_base64)
/* independent reference decoders (RFC 4648), written for the harness: value of a character, -1 if not in the alphabet */
static int ref_val(u8 c) {
#if FMT == 0
  return (c >= 'A' && c <= 'Z') ? c - 'A' : (c >= '2' && c <= '7') ? c - '2' + 26 : -1;
#elif FMT == 1
  return (c >= '0' && c <= '9') ? c - '0' : (c >= 'A' && c <= 'V') ? c - 'A' + 10 : -1;
#else
  return (c >= 'A' && c <= 'Z') ? c - 'A' : (c >= 'a' && c <= 'z') ? c - 'a' + 26 : (c >= '0' && c <= '9') ? c - '0' + 52 : c == '+' ? 62 : c == '/' ? 63 : -1;
#endif
}
#define BITS (FMT == 2 ? 6 : 5)
#define GROUP (FMT == 2 ? 4 : 8)
void harness(void) {
  ir_init_globals();
#if MODE == 5
  bw_on();
#endif
  IR_ST32(TLS___dispatch_tsd(0), 0x104);
  u64 d = mkinput();
#if MODE == 0
  u64 r = dispatch_data_create_with_transform(d, FMT_T, G__dispatch_data_format_type_none);
  if (r != 0) {
    u64 sz = dispatch_data_get_size(r);
    ASSERT(sz <= (u64)N, "SIZE: decoded data is never longer than its text (a wrapped size means later reads run far outside the buffer)");
#ifdef DEC_OBSERVE
    if (sz) { observe(r); ASSERT(out_ok && out_n == sz, "the decoded object is a well-formed byte string of the reported size"); }
#endif
    WITNESS_IF(sz >= 1, "some input decodes to at least one byte");
  } else WITNESS_REACHED("some input is rejected");
#elif MODE == 2
  /* ENC: the real encoder against the reference decoder: text length, alphabet, padding, and the bits it carries */
  u64 e = dispatch_data_create_with_transform(d, G__dispatch_data_format_type_none, FMT_T);
  ASSERT(e != 0, "ENCODE: encoding never fails");
  u64 esz = dispatch_data_get_size(e);
  ASSERT(esz == (u64)(((N * 8 + BITS * GROUP - 1) / (BITS * GROUP)) * GROUP), "ENCODE: the text length is the padded length of RFC 4648");
  observe(e);
  ASSERT(out_ok && out_n == esz, "ENCODE: the encoded object is a well-formed byte string");
  { u64 acc = 0; int nbits = 0, nout = 0; _Bool seen_pad = 0, ok = 1; u8 dec[N + 1];
    for (int i = 0; i < MAXOUT; i++) if ((u64)i < esz) { u8 c = out[i]; int v = ref_val(c);
      if (c == '=') seen_pad = 1; else { ok = ok & (v >= 0) & !seen_pad; acc = (acc << BITS) | (u64)(v & 63); nbits += BITS; if (nbits >= 8) { nbits -= 8; if (nout < N) dec[nout] = (u8)(acc >> nbits); nout++; } } }
    ASSERT(ok, "ENCODE: every character is in the alphabet and padding only at the end");
    ASSERT(nout == N, "ENCODE: the text carries exactly the input bytes");
    for (int i = 0; i < N; i++) ASSERT(dec[i] == in_byte[i], "ROUNDTRIP: the reference decoder recovers the original bytes from the real encoder's text, independent of how the input was fragmented"); }
  WITNESS_REACHED("encoding checked");
#elif MODE == 4
  /* DECV: the real decoder on a VALID text (whole groups, RFC 4648 padding), some characters symbolic over the whole alphabet, the text optionally split into two regions:
     the decoder accepts it and returns exactly the bytes the reference decoder computes.  With MODE 2 (real encoder = inverse of the reference decoder) this is the round trip. */
  u64 r = dispatch_data_create_with_transform(d, FMT_T, G__dispatch_data_format_type_none);
  _Bool good = r != 0;
  { u64 acc = 0; int nbits = 0, nout = 0, npad = 0; u8 dec[N + 1];
    static const char text[] = TEXT;
    for (int i = 0; i < N; i++) { u8 c = in_byte[i]; _Bool pad = ((SYMMASK >> i) & 1) ? 0 : (text[i] == '='); /* concrete: symbolic positions are alphabet characters */ npad += pad; if (!pad) { acc = (acc << BITS) | (u64)(ref_val(c) & 63); nbits += BITS; if (nbits >= 8) { nbits -= 8; dec[nout] = (u8)(acc >> nbits); nout++; } } }
    if (good) { good = dispatch_data_get_size(r) == (u64)nout; if (nout) { observe(r); good = good & out_ok & (out_n == (u64)nout); for (int i = 0; i < N; i++) if (i < nout) good = good & (out[i] == dec[i]); } } }
  ASSERT(good, "ROUNDTRIP: the decoder accepts every valid text of its format and returns exactly the encoded bytes, independent of how the text is fragmented into regions");
  WITNESS_REACHED("a valid text was decoded");
#elif MODE == 5
  /* UTFV: a well-formed UTF-8 text with concrete lead bytes and symbolic continuation bytes, split into up to three regions, converted to UTF-16 (FMT 3 little, 4 big endian) and back */
  ASSUME(ref_utf8_wf(in_byte, N));
  u64 e = dispatch_data_create_with_transform(d, G__dispatch_data_format_type_utf8, UTF16_T);
  _Bool good = e != 0; u64 r = 0;
  if (good) { u64 esz = dispatch_data_get_size(e); good = esz >= 2 && esz <= 2 + 2 * (u64)N && (esz & 1) == 0;
#if SPLIT2 > 0
    if (good && (u64)SPLIT2 < esz) { u64 e1 = dispatch_data_create_subrange(e, 0, SPLIT2), e2 = dispatch_data_create_subrange(e, SPLIT2, ~0ull); e = dispatch_data_create_concat(e1, e2); }
#endif
    if (good) { r = dispatch_data_create_with_transform(e, UTF16_T, G__dispatch_data_format_type_utf8); good = r != 0; }
    if (good) { good = dispatch_data_get_size(r) == (u64)N; observe(r); good = good & out_ok & (out_n == (u64)N); for (int i = 0; i < N; i++) good = good & (out[i] == in_byte[i]); } }
  ASSERT(good, "UTF ROUNDTRIP: well-formed UTF-8 converted to UTF-16 and back is the original text, independent of how the input and the UTF-16 text are fragmented");
  WITNESS_REACHED("a well-formed text made the round trip");
#elif MODE == 3
  /* UTF: well-formed UTF-8 -> UTF-16 (FMT 3 little, 4 big endian) -> UTF-8, with the input split after SPLIT bytes and the UTF-16 text re-fragmented after SPLIT2 bytes
     (the text starts with a 2-byte byte-order mark: SPLIT2 = 4 with a 4-byte input character is the boundary between the two surrogates, odd SPLIT2 cuts a code unit).
     Explored path by path; the verdict of a path is accumulated in one flag (one solver call per path). */
  ASSUME(ref_utf8_wf(in_byte, N));
  ASSUME(!(N >= 3 && in_byte[0] == 0xEF && in_byte[1] == 0xBB && in_byte[2] == 0xBF));      /* the property exempts a leading byte-order mark */
  u64 e = dispatch_data_create_with_transform(d, G__dispatch_data_format_type_utf8, UTF16_T);
  _Bool good = e != 0; u64 esz = 0, r = 0;
  if (good) { esz = dispatch_data_get_size(e); good = esz >= 2 && esz <= 2 + 2 * (u64)N && (esz & 1) == 0;
#if SPLIT2 > 0
    if (good && (u64)SPLIT2 < esz) { u64 e1 = dispatch_data_create_subrange(e, 0, SPLIT2), e2 = dispatch_data_create_subrange(e, SPLIT2, ~0ull); e = dispatch_data_create_concat(e1, e2); }
#endif
    if (good) { r = dispatch_data_create_with_transform(e, UTF16_T, G__dispatch_data_format_type_utf8); good = r != 0; }
    if (good) { good = dispatch_data_get_size(r) == (u64)N; observe(r); good = good & out_ok & (out_n == (u64)N); for (int i = 0; i < N; i++) good = good & (out[i] == in_byte[i]); } }
  ASSERT(good, "UTF ROUNDTRIP: well-formed UTF-8 converted to UTF-16 and back is the original text, independent of how the input and the UTF-16 text are fragmented (and no heap access outside a live object on the way)");
  WITNESS_REACHED("a well-formed text made the round trip");
#else
  u64 e = dispatch_data_create_with_transform(d, G__dispatch_data_format_type_none, FMT_T);
  ASSERT(e != 0, "ROUNDTRIP: encoding never fails");
  u64 esz = dispatch_data_get_size(e);
#if SPLIT2 > 0
  /* re-fragment the encoded text: two subranges concatenated */
  u64 e1 = dispatch_data_create_subrange(e, 0, SPLIT2), e2 = dispatch_data_create_subrange(e, SPLIT2, ~0ull); e = dispatch_data_create_concat(e1, e2);
#endif
  u64 r = dispatch_data_create_with_transform(e, FMT_T, G__dispatch_data_format_type_none);
  ASSERT(r != 0, "ROUNDTRIP: the decoder accepts what the encoder produced");
  ASSERT(dispatch_data_get_size(r) == (u64)N, "ROUNDTRIP: decoding the encoded bytes gives back the original length");
  observe(r);
  ASSERT(out_ok && out_n == (u64)N, "ROUNDTRIP: the decoded object is a well-formed byte string");
  for (int i = 0; i < N; i++) ASSERT(out[i] == in_byte[i], "ROUNDTRIP: decoding the encoded bytes gives back the original bytes");
  WITNESS_REACHED("round trip completed");
#endif
}
