import sys, os
sys.path.insert(0, os.path.join(os.path.dirname(__file__), '..', 'common'))
from vlib import H
from st_probes import ST_PROBES
PR = dict(ST_PROBES); PR.update({'SZ_vtable': 'sizeof(struct dispatch_lane_vtable_s)', 'OFF_vt_wakeup': 'offsetof(struct dispatch_lane_vtable_s, _os_obj_vtable.dq_wakeup)', 'OFF_vt_push': 'offsetof(struct dispatch_lane_vtable_s, _os_obj_vtable.dq_push)'})
STUBS = ['_dispatch_bug', '_dispatch_set_basepri_override_qos', 'libdispatch_tsd_init', '_dispatch_release_2_tailcall', '_dispatch_retain_2', '_dispatch_lane_barrier_complete', '_dispatch_lane_push']
def S(name, define, units, note, **kw):
    return H(name, 'h_width.c', units + ['__dispatch_tsd', '_dispatch_lane_push'], stubs=STUBS, nt=1, heap=1024, defines=['-D' + define], note=note, unwind=5, probes=PR, timeout=300,
             icall_only=['_dispatch_lane_push'], **kw)
C02U = ['_dispatch_queue_drain_try_lock', '_dispatch_queue_try_acquire_barrier_sync_and_suspend', '_dispatch_queue_try_reserve_sync_width', '_dispatch_queue_try_acquire_async', '__dispatch_tsd']
def S2(name, define, note):
    return H(name, '../C02/h_state.c', C02U, stubs=['_dispatch_bug', '_dispatch_set_basepri_override_qos', 'libdispatch_tsd_init'], nt=1, heap=1024, defines=['-D' + define], note=note, unwind=5, probes=ST_PROBES, timeout=300)
HARNESSES = [
    S('S_non_barrier_complete', 'H_NBCOMPLETE', ['_dispatch_lane_non_barrier_complete'], 'real _dispatch_lane_non_barrier_complete (+_try_lock, _finish): last reader takes the lock / re-drives; all states with the caller in flight'),
    S('S_upgrade_full_width', 'H_UPGRADE', ['_dispatch_queue_try_upgrade_full_width'], 'real _dispatch_queue_try_upgrade_full_width: barrier granted iff no reader in flight, else PENDING_BARRIER parked'),
    S('S_pending_barrier_blocks', 'H_PENDING_BLOCKS', ['_dispatch_queue_try_reserve_sync_width', '_dispatch_queue_try_acquire_async', '_dispatch_queue_try_reserve_apply_width'], 'PENDING_BARRIER with readers in flight: sync, async and apply width acquisitions all fail'),
    S('S_apply_width', 'H_APPLY', ['_dispatch_queue_try_reserve_apply_width', '_dispatch_queue_relinquish_width'], 'real apply width reserve/relinquish: grant <= min(request, available); relinquish restores the word'),
    S2('S_reserve_sync_width', 'H_RSYNC', 'reader fast path (shared with C02): refused when suspended / in barrier / barrier pending / dirty / items queued ahead'),
    S2('S_acquire_async', 'H_ASYNC', 'redirected async width (shared with C02)'),
    S2('S_barrier_sync_fastpath', 'H_BSYNC', 'barrier-sync fast path only from the completely idle word (shared with C02)'),
    S2('S_drain_try_lock', 'H_LOCK', 'drain lock: IN_BARRIER exactly when nothing in flight or barrier pending (shared with C02)'),
]
# ---- tier H: readers and barriers on a concurrent queue through the real API (shared history harness); the quiescent-width oracle (no phantom reader / barrier left) and barrier ordering are what C04 needs here
from hist_spec import HH
from seqs import seqs
HARNESSES += [HH(x, conc=True) for x in seqs('absBR', 3, minlen=2) if ('b' in x or 'B' in x)] + [HH(x, conc=True, tiers=('thorough',)) for x in seqs('absBR', 4, minlen=4) if ('b' in x or 'B' in x) and 's' in x]
# worker order: 'L' lets a pool worker take the NEWEST pending hand-off first (a reader that was wrongly redirected past a queued barrier then runs before it)
HARNESSES += [HH(x, conc=True) for x in seqs('abL', 4, minlen=2) if 'b' in x and 'L' in x and not x.startswith('L') and 'LL' not in x and len(x) <= 3] + [HH(x, conc=True) for x in ('baLa', 'abaL', 'bsaL', 'baaL', 'bbaL', 'baLb')]
# dispatch_queue_set_width on a busy queue (op Z): the change is a queued barrier executed inside a drain that has already started; reader / barrier bookkeeping afterwards must use the new width
_zs = [x for x in seqs('abZsR', 4, minlen=2) if x.count('Z') == 1 and not x.endswith('Z')]
_zq = [x for x in _zs if len(x) <= 3] + ['aZab', 'aZaRb', 'aZsb', 'abZa', 'aZbs']
HARNESSES += [HH(x, conc=True, entries_extra=['dispatch_queue_set_width'], icall_extra=['_dispatch_lane_set_width'], name_extra='_setwidth', extra=['-DHAVE_SET_WIDTH']) for x in _zq] + \
             [HH(x, conc=True, entries_extra=['dispatch_queue_set_width'], icall_extra=['_dispatch_lane_set_width'], name_extra='_setwidth', extra=['-DHAVE_SET_WIDTH'], tiers=('thorough',)) for x in _zs if x not in _zq]
ASSUMPTIONS = ['tier H: every history of length <= 3 (thorough: 4 with a sync reader) over {async, barrier async, sync reader, barrier sync, worker step} on one concurrent queue that contains a barrier; sequential model threads (a blocked thread lets the pool worker and the other client proceed)', 'tier S: one call of one real width-algebra function from any state word inside the stated caller contract (harness source: st_valid), widths 2..4094, at most 2 interfering replacements of the word',
               'in-flight count is defined from the documented encoding W = (0x1000 - width) + in_flight (+ width-1 when PENDING_BARRIER)',
               'barrier completion, target push and reference counting are counting stubs']
LEVEL_TEXT = "Tier H: all histories <= 3 (4) containing a barrier on a concurrent queue through the real API: barrier ordering, exactly-once, and at quiescence the whole width is free again (no phantom reader or barrier left in the state word). Tier S width algebra over all state words inside the caller contracts, widths 2..4094, bounded interference: the leaving reader takes the barrier lock only if it was the last item in flight, otherwise re-drives or leaves DIRTY for the drainer (never neither); the drainer's upgrade is granted exactly when no reader is in flight and parks PENDING_BARRIER otherwise; with PENDING_BARRIER no sync/async/apply reader is admitted; apply reserve/relinquish are inverse; reader fast paths refuse queued-ahead items (shared with C02). Histories with dispatch_queue_set_width on a busy concurrent queue (the change is a queued barrier executed inside a drain already in progress): the width bookkeeping afterwards uses the new width (quiescent-width oracle)."
LEVEL_NOTE = "In-flight count defined from the documented encoding; the 13-bit width field is assumed not to overflow (< ~4000 over-committed sync readers); barrier hand-off over whole histories is covered only by the concurrent-queue sequences of C01's tier H (BARRIER ORDER assertion)."
