/* C04 tier S: the width algebra that makes a barrier a writer lock.  Real units, all state words inside the stated caller contracts, all widths 2..4094,
   bounded interference.  "in flight" is defined independently from the documentation: W = (WIDTH_FULL - width) + in_flight [+ width-1 if PENDING_BARRIER]. */
#define ST_VALID_STEP(prev, nw) 1
#include "st.h"
void _dispatch_bug(u64 l, u64 v) { ASSERT(0, "_dispatch_bug"); }
void _dispatch_set_basepri_override_qos(u32 q) { }
static int pushes, releases2, retains2, bcompletes; static u64 bc_state;
void _dispatch_lane_barrier_complete(u64 dq, u32 qos, u32 flags) { bcompletes++; bc_state = IR_LD64(ST_ADDR); }
void _dispatch_release_2_tailcall(u64 o) { releases2++; }
void _dispatch_retain_2(u64 o) { retains2++; }
void _dispatch_lane_push(u64 tq, u64 o, u32 qos) { ASSERT(tq == TQ && o == DQ, "push of the queue to its target"); pushes++; }
static s64 used(u64 s, u64 w) { return (s64)WFIELD(s) - (s64)(WIDTH_FULL - w) - ((s & PENDING_BARRIER) ? (s64)(w - 1) : 0); }
static u64 in_consume2, in_owned_w, in_da;

#ifdef H_NBCOMPLETE
/* a non-barrier (reader) item finishes: _dispatch_lane_non_barrier_complete.  Caller contract: the caller itself is in flight. */
static _Bool st_valid(u64 s) { return used(s, in_width) >= 1 && WFIELD(s) <= 0x1ffe && !(s & ROLE_BASE_WLH) && !((s & IN_BARRIER) && OWNER(s) == 0); }
void harness(void) {
  st_setup(); ASSUME(in_width >= 2); ASSUME(st_valid(in_state)); st_interfere_on = 1; SYM(in_consume2); in_consume2 &= 1;
  u64 vt = ir_bump(P_SZ_vtable); IR_ST64(TQ + P_OFF_vtable, vt); IR_ST64(vt + P_OFF_vt_push, FN__dispatch_lane_push);
  _dispatch_lane_non_barrier_complete(DQ, (u32)(in_consume2 ? P_WAKEUP_CONSUME_2 : 0));
  u64 o = st_last_old, n = st_last_new; s64 left = used(o, in_width) - 1;       /* readers still in flight after this one left */
  ASSERT(st_ntrans == 1, "exactly one atomic update");
  if (n & IN_BARRIER && !(o & IN_BARRIER)) {
    ASSERT(left == 0, "EXCLUSION: the leaving reader takes the barrier lock only if it was the last item in flight");
    ASSERT(OWNER(o) == 0 && !IS_SUSPENDED(o), "and only if nobody owns the queue and it is not suspended");
    ASSERT(OWNER(n) == TID && WFIELD(n) == WIDTH_FULL && !(n & (PENDING_BARRIER | DIRTY)), "it then owns the full width in barrier mode, pending-barrier and dirty consumed");
    ASSERT(bcompletes == 1 && pushes == 0, "and runs barrier completion (which hands over to the queued barrier)");
    WITNESS_IF(o & PENDING_BARRIER, "last reader takes the lock for a pending barrier"); WITNESS_IF(!(o & PENDING_BARRIER), "last reader takes the lock, no barrier pending");
  } else {
    ASSERT(((n ^ (o - WIDTH_INTERVAL)) & ~(DIRTY | ENQUEUED)) == 0, "otherwise exactly one unit of width is returned and only DIRTY/ENQUEUED may change");
    ASSERT(bcompletes == 0, "no barrier completion without the lock");
    if (OWNER(o) != 0) { ASSERT(n & DIRTY, "LAST CHANCE: with a drainer present the reader leaves DIRTY behind so that the drainer re-evaluates the width"); ASSERT(pushes == 0, "no push"); }
    else if (!IS_SUSPENDED(o - WIDTH_INTERVAL) && !((o - WIDTH_INTERVAL) & FULL_BIT) && !((o - WIDTH_INTERVAL) & IN_BARRIER)) {
      ASSERT(left != 0, "LAST CHANCE: a last reader on a runnable, unowned queue never just walks away");
      if (o & DIRTY) { ASSERT(n & ENQUEUED, "LAST CHANCE: work was queued meanwhile (DIRTY): the queue is enqueued for a re-drive"); ASSERT(pushes == ((o & ENQUEUED) ? 0 : 1), "pushed unless already enqueued"); }
      else ASSERT(pushes == 0 && n == o - WIDTH_INTERVAL, "clean: nothing else to do");
    }
    ASSERT(pushes + releases2 == in_consume2 || (pushes == 1 && retains2 == 1), "reference accounting: +2 consumed once");
    WITNESS_IF(OWNER(o) != 0, "reader leaves, drainer present"); WITNESS_IF(pushes == 1, "reader re-drives the queue");
  }
}
#endif

#ifdef H_UPGRADE
/* the drainer wants to run a barrier: _dispatch_queue_try_upgrade_full_width(dq, owned).  Caller contract: caller owns the drain lock in non-barrier mode and `owned` units of width */
static u64 owned_c;
static s64 others(u64 s, u64 w) { return used(s, w) - (s64)(owned_c / WIDTH_INTERVAL); }
static _Bool st_valid(u64 s) { return OWNER(s) == TID && !(s & IN_BARRIER) && !IS_SUSPENDED(s) && others(s, in_width) >= 0 && WFIELD(s) + in_width <= 0x1fff /* the 13-bit width field does not overflow: fewer than ~4000 over-committed sync readers */ && WFIELD(s) >= owned_c / WIDTH_INTERVAL; }
void harness(void) {
  st_setup(); ASSUME(in_width >= 2); SYM(in_owned_w); ASSUME(in_owned_w <= in_width); owned_c = in_owned_w * WIDTH_INTERVAL;
  ASSUME(st_valid(in_state)); st_interfere_on = 1;
  _Bool got = _dispatch_queue_try_upgrade_full_width(DQ, owned_c);
  u64 o = st_last_old, n = st_last_new;
  ASSERT(st_ntrans == 1, "exactly one atomic update");
  ASSERT(got == (others(o, in_width) == 0), "EXCLUSION: the drainer gets the barrier exactly when no reader is in flight");
  ASSERT(got == ((n & IN_BARRIER) != 0), "the return value tells whether IN_BARRIER was taken");
  ASSERT(!(n & DIRTY) && OWNER(n) == TID, "dirty is consumed, the owner stays");
  if (got) ASSERT(WFIELD(n) == WIDTH_FULL && !(n & PENDING_BARRIER), "granted: full width held, no pending barrier");
  else { ASSERT(n & PENDING_BARRIER, "refused: PENDING_BARRIER is parked"); ASSERT(used(n, in_width) == others(o, in_width), "and only the readers in flight remain accounted (width-1 is reserved so that nobody else gets in)");
         ASSERT(n & FULL_BIT, "so the queue looks full to every reader fast path"); }
  WITNESS_IF(got, "barrier granted"); WITNESS_IF(!got && !(o & PENDING_BARRIER), "barrier parked behind readers");
}
#endif

#ifdef H_PENDING_BLOCKS
/* once PENDING_BARRIER is parked, no new reader gets in by any fast path (and the drain lock cannot be taken by another drainer while owned) */
static _Bool st_valid(u64 s) { return (s & PENDING_BARRIER) != 0 && used(s, in_width) >= 1 && WFIELD(s) <= 0x1ffe; }
static u64 in_which;
void harness(void) {
  st_setup(); ASSUME(in_width >= 2); ASSUME(st_valid(in_state)); st_interfere_on = 1; SYM(in_which); ASSUME(in_which < 3);
  _Bool got = 0; s64 r = 0;
  if (in_which == 0) { IR_ST64(DQ + P_OFF_items_tail, 0); got = _dispatch_queue_try_reserve_sync_width(DQ); }
  else if (in_which == 1) got = _dispatch_queue_try_acquire_async(DQ);
  else { SYM(in_da); ASSUME(in_da >= 1 && in_da <= 64); r = (s32)_dispatch_queue_try_reserve_apply_width(DQ, (u32)in_da); got = r != 0; }
  ASSERT(!got, "ORDER: no reader is admitted after a barrier has been parked (PENDING_BARRIER) while readers are still in flight");
  WITNESS_IF(in_which == 2, "apply width refused"); WITNESS_IF(in_which == 0, "sync reader refused");
}
#endif

#ifdef H_APPLY
/* dispatch_apply's width reservation: takes min(requested, available), never more, and relinquish gives exactly that back */
static _Bool st_valid(u64 s) { return 1; }
void harness(void) {
  st_setup(); st_interfere_on = 1; SYM(in_da); ASSUME(in_da >= 1 && in_da <= 0xfff);
  s32 got = (s32)_dispatch_queue_try_reserve_apply_width(DQ, (u32)in_da);
  if (got == 0) { ASSERT(st_ntrans == 0, "nothing reserved, state untouched"); ASSERT(in_width == 1 || (st_last_seen & FULL_BIT) || WFIELD(st_last_seen) == WIDTH_FULL, "refused only when the queue is serial or has no width left"); WITNESS_REACHED("apply width refused"); return; }
  u64 o = st_last_old, n = st_last_new;
  ASSERT(in_width > 1, "a serial queue never grants apply width");
  ASSERT(got >= 1 && (u64)got <= in_da && (u64)got <= WIDTH_FULL - WFIELD(o) && !(o & FULL_BIT), "grant is at most the request and at most the available width");
  ASSERT(n == o + (u64)got * WIDTH_INTERVAL, "exactly the granted width is taken");
  st_interfere_on = 0; IR_ST64(DQ + P_OFF_do_targetq, TQ);
  _dispatch_queue_relinquish_width(DQ, TQ, (u32)got);
  ASSERT(IR_LD64(ST_ADDR) == o, "relinquish gives back exactly what was reserved");
  WITNESS_IF((u64)got < in_da, "partial grant"); WITNESS_IF((u64)got == in_da, "full grant");
}
#endif
